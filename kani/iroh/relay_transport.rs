#![allow(unreachable_pub, dead_code, missing_docs, unused_imports, unused_variables, unused_mut, static_mut_refs, clippy::all)]
// Kani harnesses for iroh/src/socket/transports/relay.rs (C17: relay receive path).
use super::*;
use iroh_base::verif_support as vs;
use std::task::Waker;
include!("/verif/kani/common.rs");
include!("/verif/kani/common_tracing.rs");

static mut CHANNEL_POLLS: usize = 0;

/// Stub for `mpsc::Receiver::poll_recv` (the real one reaches tokio's cooperative-budget
/// thread-local => kani-compiler ICE): the queue is empty and open; records that it was
/// polled (a Pending poll of the real channel registers the waker).
fn poll_recv_empty<T>(_this: &mut mpsc::Receiver<T>, _cx: &mut Context<'_>) -> Poll<Option<T>> {
    unsafe { CHANNEL_POLLS += 1 };
    Poll::Pending
}

/// Stub for `std::io::Error::new`: same kind, no boxed payload (the boxed custom error's
/// recursive drop glue is needlessly expensive for CBMC; the message text is irrelevant).
fn io_error_simple<E>(kind: io::ErrorKind, _error: E) -> io::Error
where
    E: Into<Box<dyn std::error::Error + Send + Sync>>,
{
    io::Error::from(kind)
}

/// A RelayUrl token that is moved/cloned but never looked into (constructing a real Url is
/// far beyond CBMC's reach): an Arc over uninitialised Url storage.
fn token_url() -> RelayUrl {
    let a: std::sync::Arc<core::mem::MaybeUninit<url::Url>> = std::sync::Arc::new(core::mem::MaybeUninit::uninit());
    unsafe { core::mem::transmute::<std::sync::Arc<core::mem::MaybeUninit<url::Url>>, RelayUrl>(a) }
}

const N: usize = 24;

/// C17 (one step): from an arbitrary pending batch (contents 0..=24 symbolic bytes, any
/// segment size) and one receive buffer of 1..=32 bytes, a poll_recv call
///  * never reports more bytes than the buffer holds, and reports them in order, unmodified;
///  * makes progress: a reported datagram carries at least one byte of the pending batch
///    unless the batch itself was empty - it never reports zero-length datagrams while
///    leaving the batch untouched (which would repeat forever and starve later datagrams);
///  * returns Pending only after polling the channel in that same call (waker registered).
#[kani::proof]
#[kani::unwind(4)]
#[kani::stub(vs::curve25519_dalek::edwards::CompressedEdwardsY::decompress, vs::decompress_all_valid)]
#[kani::stub(tokio::sync::mpsc::Receiver::poll_recv, poll_recv_empty)]
#[kani::stub(tracing::__macro_support::__is_enabled, tstubs::is_enabled)]
#[kani::stub(tracing::callsite::DefaultCallsite::interest, tstubs::interest)]
#[kani::stub(tracing::Event::dispatch, tstubs::dispatch)]
fn c17_poll_recv_step_progress() {
    let content: [u8; N] = kani::any();
    let len: usize = kani::any();
    kani::assume(len <= N);
    let leaked: &'static [u8; N] = Box::leak(Box::new(content));
    let mut b = Bytes::from_static(&leaked[..]);
    b.truncate(len);
    let ss: Option<NonZeroU16> = kani::any();
    let item = RelayRecvDatagram {
        url: token_url(),
        src: vs::key_from([0u8; 32]),
        datagrams: Datagrams { ecn: None, segment_size: ss, contents: b },
    };
    let (_tx, rx) = mpsc::channel::<RelayRecvDatagram>(1);
    let mut t = core::mem::MaybeUninit::<RelayTransport>::uninit();
    unsafe {
        core::ptr::addr_of_mut!((*t.as_mut_ptr()).pending_item).write(Some(item));
        core::ptr::addr_of_mut!((*t.as_mut_ptr()).relay_datagram_recv_queue).write(rx);
    }
    let transport: &mut RelayTransport = unsafe { &mut *t.as_mut_ptr() };

    let mut storage = [0u8; 32];
    let blen: usize = kani::any();
    kani::assume(blen >= 1 && blen <= 32);
    let mut bufs = [io::IoSliceMut::new(&mut storage[..blen])];
    let mut metas = [noq_udp::RecvMeta::default()];
    let sa: std::net::SocketAddr = std::net::SocketAddr::new(std::net::IpAddr::V4(std::net::Ipv4Addr::LOCALHOST), 1);
    let mut infos = [RecvInfo::from_addr(crate::socket::transports::Addr::Ip(sa))];
    let mut cx = Context::from_waker(Waker::noop());

    let r = transport.poll_recv(&mut cx, &mut bufs, &mut metas, &mut infos);
    let rest = transport.pending_item.as_ref().map_or(0, |p| p.datagrams.contents.len());
    match &r {
        Poll::Ready(Ok(n)) => {
            assert!(*n == 1);
            let got = metas[0].len;
            assert!(got <= blen);
            // delivered bytes are the next unread bytes of the batch, in order
            let i: usize = kani::any();
            if i < got {
                assert!(bufs[0][i] == content[i]);
            }
            // nothing lost or duplicated between what was delivered and what is still pending
            assert!(got + rest == len || rest == 0);
            // progress
            assert!(got > 0 || len == 0, "a zero-length datagram is reported while the batch is untouched");
            assert!(got == 0 || metas[0].stride >= 1);
        }
        Poll::Ready(Err(_)) => assert!(false, "the channel is open"),
        Poll::Pending => {
            assert!(unsafe { CHANNEL_POLLS } >= 1, "Pending without a registered wake-up");
        }
    }
    kani::cover!(matches!(r, Poll::Ready(Ok(1))) && rest > 0, "partial take");
    kani::cover!(matches!(r, Poll::Pending));
    core::mem::forget(r);
    core::mem::forget(infos);
    core::mem::forget(t);
}

#[cfg(test)]
mod playback {
    use super::*;
    include!("/verif/.build/playback/iroh__relay_transport.rs");
}
