#![allow(unreachable_pub, dead_code, missing_docs, unused_imports, unused_variables, unused_mut, static_mut_refs, clippy::all)]
// Kani harnesses for iroh/src/endpoint/hooks.rs (C42 kernel: the hook list).
use super::*;
use iroh_base::verif_support as vs;
use std::task::{Context, Poll, Waker};
include!("/verif/kani/common.rs");

static ALPN: [u8; 2] = [1, 2];
static mut CALLS: [u8; 4] = [255; 4];
static mut NCALLS: usize = 0;

#[derive(Debug)]
struct MockHook {
    id: u8,
    reject: bool,
    code: u32,
}

impl EndpointHooks for MockHook {
    fn before_connect<'a>(
        &'a self,
        _remote_addr: &'a EndpointAddr,
        _alpn: &'a [u8],
    ) -> impl Future<Output = BeforeConnectOutcome> + Send + 'a {
        async move {
            unsafe {
                CALLS[NCALLS] = self.id;
                NCALLS += 1;
            }
            if self.reject { BeforeConnectOutcome::Reject } else { BeforeConnectOutcome::Accept }
        }
    }

    fn after_handshake<'a>(&'a self, _conn: &'a Connection) -> impl Future<Output = AfterHandshakeOutcome> + Send + 'a {
        async move {
            unsafe {
                CALLS[NCALLS] = self.id;
                NCALLS += 1;
            }
            if self.reject {
                AfterHandshakeOutcome::Reject { error_code: VarInt::from_u32(self.code), reason: vec![self.id] }
            } else {
                AfterHandshakeOutcome::Accept
            }
        }
    }
}

fn run<F: Future>(f: F) -> F::Output {
    let mut f = Box::pin(f);
    let mut cx = Context::from_waker(Waker::noop());
    let mut i = 0;
    loop {
        if let Poll::Ready(v) = f.as_mut().poll(&mut cx) {
            return v;
        }
        i += 1;
        assert!(i < 3, "mock hooks are always ready");
    }
}

fn build(n: usize, rej: [bool; 3], codes: [u32; 3]) -> EndpointHooksList {
    let mut list = EndpointHooksList::default();
    let mut i = 0;
    while i < n {
        list.push(MockHook { id: i as u8, reject: rej[i], code: codes[i] });
        i += 1;
    }
    list
}

fn first_reject(n: usize, rej: [bool; 3]) -> Option<usize> {
    let mut i = 0;
    while i < n {
        if rej[i] {
            return Some(i);
        }
        i += 1;
    }
    None
}

fn check_calls(n: usize, first: Option<usize>) {
    // hooks run in installation order and none after the first rejection
    let expect = match first {
        Some(i) => i + 1,
        None => n,
    };
    unsafe {
        assert!(NCALLS == expect);
        let mut k = 0;
        while k < expect {
            assert!(CALLS[k] == k as u8);
            k += 1;
        }
    }
}

/// C42 (outgoing): for every list of N hooks with every accept/reject pattern, before_connect
/// accepts iff every hook accepts; hooks are consulted in installation order and none after the
/// first rejection.
fn before_connect_gate<const N: usize>() {
    let rej: [bool; 3] = kani::any();
    let list = build(N, rej, [0; 3]);
    // an `&EndpointAddr` that neither the list nor the mock hooks read (a real one holds a
    // BTreeSet, which is needlessly heavy here)
    let slot: &'static mut core::mem::MaybeUninit<EndpointAddr> = Box::leak(Box::new(core::mem::MaybeUninit::uninit()));
    let addr: &EndpointAddr = unsafe { &*slot.as_ptr() };
    let out = run(list.before_connect(addr, &ALPN));
    let first = first_reject(N, rej);
    assert!(matches!(out, BeforeConnectOutcome::Reject) == first.is_some());
    check_calls(N, first);
    core::mem::forget(list);
}

/// C42 (after the handshake): the first rejecting hook's error code and reason are the result.
fn after_handshake_gate<const N: usize>() {
    let rej: [bool; 3] = kani::any();
    let codes: [u32; 3] = kani::any();
    let list = build(N, rej, codes);
    // a `&Connection` that is never dereferenced by the list or the mock hooks
    let slot: &'static mut core::mem::MaybeUninit<Connection> = Box::leak(Box::new(core::mem::MaybeUninit::uninit()));
    let conn: &Connection = unsafe { &*slot.as_ptr() };
    let out = run(list.after_handshake(conn));
    let first = first_reject(N, rej);
    match (&out, first) {
        (AfterHandshakeOutcome::Accept, None) => {}
        (AfterHandshakeOutcome::Reject { error_code, reason }, Some(i)) => {
            assert!(*error_code == VarInt::from_u32(codes[i]));
            assert!(reason.len() == 1 && reason[0] == i as u8);
        }
        _ => assert!(false, "outcome differs from the first rejecting hook"),
    }
    check_calls(N, first);
    core::mem::forget(out);
    core::mem::forget(list);
}

macro_rules! c42h {
    ($name:ident, $f:ident, $n:expr) => {
        #[kani::proof]
        #[kani::unwind(8)]
        fn $name() {
            $f::<$n>();
        }
    };
}
c42h!(c42_before_connect_0_hooks, before_connect_gate, 0);
c42h!(c42_before_connect_2_hooks, before_connect_gate, 2);
c42h!(c42_before_connect_3_hooks, before_connect_gate, 3);
c42h!(c42_after_handshake_0_hooks, after_handshake_gate, 0);
c42h!(c42_after_handshake_2_hooks, after_handshake_gate, 2);
c42h!(c42_after_handshake_3_hooks, after_handshake_gate, 3);

#[kani::proof]
#[kani::unwind(8)]
fn c42_witness() {
    let rej: [bool; 3] = kani::any();
    let list = build(3, rej, [0; 3]);
    let slot: &'static mut core::mem::MaybeUninit<EndpointAddr> = Box::leak(Box::new(core::mem::MaybeUninit::uninit()));
    let addr: &EndpointAddr = unsafe { &*slot.as_ptr() };
    let out = run(list.before_connect(addr, &ALPN));
    kani::assume(matches!(out, BeforeConnectOutcome::Reject) && !rej[0] && !rej[1]);
    core::mem::forget(list);
    assert!(false, "witness");
}

#[kani::proof]
#[kani::unwind(8)]
fn c42_after_witness() {
    let rej: [bool; 3] = kani::any();
    let list = build(3, rej, [7; 3]);
    let slot: &'static mut core::mem::MaybeUninit<Connection> = Box::leak(Box::new(core::mem::MaybeUninit::uninit()));
    let conn: &Connection = unsafe { &*slot.as_ptr() };
    let out = run(list.after_handshake(conn));
    kani::assume(matches!(out, AfterHandshakeOutcome::Reject { .. }) && !rej[0] && !rej[1]);
    core::mem::forget(out);
    core::mem::forget(list);
    assert!(false, "witness");
}

#[cfg(test)]
mod playback {
    use super::*;
    include!("/verif/.build/playback/iroh__hooks.rs");
}

