#![allow(unreachable_pub, dead_code, missing_docs, unused_imports, unused_variables, unused_mut, static_mut_refs, clippy::all)]
// Kani harnesses for iroh/src/tls/verifier.rs + name.rs (C01 kernels).
use super::*;
use iroh_base::verif_support as vs;
use webpki_types::SignatureVerificationAlgorithm;
include!("/verif/kani/common.rs");

/// C01: the TLS 1.3 handshake signature check accepts exactly when the raw public key is 32
/// bytes that are a valid point, the signature is 64 bytes, and the signature oracle accepts
/// (that key, that message, that signature). Key/signature lengths 31..=33 / 63..=65.
#[kani::proof]
#[kani::unwind(70)]
#[kani::stub(vs::curve25519_dalek::edwards::CompressedEdwardsY::decompress, vs::decompress_oracle)]
#[kani::stub(iroh_base::PublicKey::verify, vs::verify_oracle)]
#[kani::stub(n0_error::backtrace_enabled, vstubs::backtrace_disabled)]
fn c01_handshake_signature_is_checked_with_the_presented_key() {
    let pk: [u8; 33] = kani::any();
    let sig: [u8; 65] = kani::any();
    let msg: [u8; 4] = kani::any();
    let pl: usize = kani::any();
    let sl: usize = kani::any();
    kani::assume(pl >= 31 && pl <= 33 && sl >= 63 && sl <= 65);
    let r = Ed25519Dalek.verify_signature(&pk[..pl], &msg, &sig[..sl]);
    let mut k = [0u8; 32];
    k.copy_from_slice(&pk[..32]);
    if r.is_ok() {
        assert!(pl == 32 && sl == 64);
        assert!(vs::oracle_answer(&k) == Some(true));
        assert!(vs::sig_queries() == 1);
        let q = vs::sig_query(0);
        assert!(q.answer && q.key == k && q.msg_len == 4);
        let mut i = 0;
        while i < 64 {
            assert!(q.sig[i] == sig[i]);
            i += 1;
        }
        let mut i = 0;
        while i < 4 {
            assert!(q.msg[i] == msg[i]);
            i += 1;
        }
    } else {
        let all_good = pl == 32 && sl == 64 && vs::oracle_answer(&k) == Some(true) && vs::sig_queries() == 1 && vs::sig_query(0).answer;
        assert!(!all_good);
    }
    kani::cover!(r.is_ok());
    kani::cover!(r.is_err() && pl == 32 && sl == 64);
}

const SPKI_PREFIX: [u8; 12] = [0x30, 0x2a, 0x30, 0x05, 0x06, 0x03, 0x2b, 0x65, 0x70, 0x03, 0x21, 0x00];

fn name_for(key: &PublicKey) -> String {
    // what tls::name::encode produces, without going through format!
    let mut s = String::with_capacity(80);
    s.push_str(&data_encoding::BASE32_DNSSEC.encode(key.as_bytes()));
    s.push_str(".iroh.invalid");
    s
}

/// C01: dialing id K (server name derived from K): whatever single certificate the remote
/// presents (all 44-byte strings), it is accepted iff it is exactly the Ed25519
/// SubjectPublicKeyInfo of K - i.e. the key whose possession the handshake signature then
/// proves is K. Also: the derived name decodes back to K.
#[kani::proof]
#[kani::unwind(70)]
#[kani::stub(vs::curve25519_dalek::edwards::CompressedEdwardsY::decompress, vs::decompress_all_valid)]
#[kani::stub(n0_error::backtrace_enabled, vstubs::backtrace_disabled)]
fn c01_server_cert_must_be_spki_of_dialed_id() {
    let key = vs::any_key();
    let name = name_for(&key);
    assert!(crate::tls::name::decode(&name).map(|k| *k.as_bytes()) == Some(*key.as_bytes()));
    let Ok(server_name) = rustls::pki_types::ServerName::try_from(name.as_str()) else {
        assert!(false, "derived name is a valid DNS name");
        return;
    };
    let ee: [u8; 44] = kani::any();
    let cert = Certificate::from(&ee[..]);
    let now = rustls::pki_types::UnixTime::since_unix_epoch(std::time::Duration::from_secs(1));
    let r = ServerCertificateVerifier.verify_server_cert(&cert, &[], &server_name, &[], now);
    let mut matches = true;
    let mut i = 0;
    while i < 12 {
        matches &= ee[i] == SPKI_PREFIX[i];
        i += 1;
    }
    let mut i = 0;
    while i < 32 {
        matches &= ee[12 + i] == key.as_bytes()[i];
        i += 1;
    }
    assert!(r.is_ok() == matches);
    kani::cover!(r.is_ok());
    kani::cover!(r.is_err());
    core::mem::forget(r);
    core::mem::forget(name);
}

/// C01: a certificate chain (any intermediate), a certificate of another length, or a
/// non-DNS server name is never accepted, even when the end-entity is the right key;
/// client certificates are accepted only without intermediates; TLS 1.2 signatures are refused.
#[kani::proof]
#[kani::unwind(70)]
#[kani::stub(vs::curve25519_dalek::edwards::CompressedEdwardsY::decompress, vs::decompress_all_valid)]
#[kani::stub(n0_error::backtrace_enabled, vstubs::backtrace_disabled)]
fn c01_chains_and_other_names_rejected() {
    let key = vs::key_from([7u8; 32]);
    let name = name_for(&key);
    let server_name = rustls::pki_types::ServerName::try_from(name.as_str()).unwrap();
    let mut spki = [0u8; 45];
    spki[..12].copy_from_slice(&SPKI_PREFIX);
    spki[12..44].copy_from_slice(key.as_bytes());
    let now = rustls::pki_types::UnixTime::since_unix_epoch(std::time::Duration::from_secs(1));
    let good = Certificate::from(&spki[..44]);
    assert!(ServerCertificateVerifier.verify_server_cert(&good, &[], &server_name, &[], now).is_ok());
    // one intermediate of arbitrary content
    let inter: [u8; 3] = kani::any();
    let chain = [Certificate::from(&inter[..])];
    assert!(ServerCertificateVerifier.verify_server_cert(&good, &chain, &server_name, &[], now).is_err());
    // other lengths
    let long = Certificate::from(&spki[..45]);
    assert!(ServerCertificateVerifier.verify_server_cert(&long, &[], &server_name, &[], now).is_err());
    let short = Certificate::from(&spki[..43]);
    assert!(ServerCertificateVerifier.verify_server_cert(&short, &[], &server_name, &[], now).is_err());
    // an IP address as server name
    let ip = rustls::pki_types::ServerName::IpAddress(rustls::pki_types::IpAddr::from(std::net::IpAddr::V4(std::net::Ipv4Addr::LOCALHOST)));
    assert!(ServerCertificateVerifier.verify_server_cert(&good, &[], &ip, &[], now).is_err());
    // client side
    assert!(ClientCertificateVerifier.verify_client_cert(&good, &[], now).is_ok());
    assert!(ClientCertificateVerifier.verify_client_cert(&good, &chain, now).is_err());
    assert!(ServerCertificateVerifier.requires_raw_public_keys() && ClientCertificateVerifier.requires_raw_public_keys());
    assert!(ClientCertificateVerifier.offer_client_auth());
    core::mem::forget(name);
}

#[kani::proof]
#[kani::unwind(70)]
#[kani::stub(vs::curve25519_dalek::edwards::CompressedEdwardsY::decompress, vs::decompress_oracle)]
#[kani::stub(iroh_base::PublicKey::verify, vs::verify_oracle)]
#[kani::stub(n0_error::backtrace_enabled, vstubs::backtrace_disabled)]
fn c01_witness() {
    let pk: [u8; 32] = kani::any();
    let sig: [u8; 64] = kani::any();
    let msg: [u8; 4] = kani::any();
    let r = Ed25519Dalek.verify_signature(&pk, &msg, &sig);
    kani::assume(r.is_ok());
    assert!(false, "witness");
}

#[cfg(test)]
mod playback {
    use super::*;
    include!("/verif/.build/playback/iroh__verifier.rs");
}
