#![allow(unreachable_pub, dead_code, missing_docs, unused_imports, unused_variables, unused_mut, static_mut_refs, clippy::all)]
// Kani harnesses for iroh/src/tls/verifier.rs + name.rs (C01 kernels).
use super::*;
use iroh_base::verif_support as vs;
use webpki_types::SignatureVerificationAlgorithm;
include!("/verif/kani/common.rs");

/// C01: the TLS 1.3 handshake signature check accepts exactly when the raw public key is 32
/// bytes that are a valid point, the signature is 64 bytes, and the signature oracle accepts
/// (that key, that message, that signature). Key/signature lengths 31..=33 / 63..=65.
#[kani::proof]
#[kani::unwind(70)]
#[kani::stub(vs::curve25519_dalek::edwards::CompressedEdwardsY::decompress, vs::decompress_oracle)]
#[kani::stub(iroh_base::PublicKey::verify, vs::verify_oracle)]
#[kani::stub(<vs::ed25519_dalek::VerifyingKey as vs::ed25519_dalek::Verifier<vs::ed25519_dalek::Signature>>::verify, vs::nonstrict_verify_oracle)]
#[kani::stub(n0_error::backtrace_enabled, vstubs::backtrace_disabled)]
fn c01_handshake_signature_is_checked_with_the_presented_key() {
    let pk: [u8; 33] = kani::any();
    let sig: [u8; 65] = kani::any();
    let msg: [u8; 4] = kani::any();
    let pl: usize = kani::any();
    let sl: usize = kani::any();
    kani::assume(pl >= 31 && pl <= 33 && sl >= 63 && sl <= 65);
    let r = Ed25519Dalek.verify_signature(&pk[..pl], &msg, &sig[..sl]);
    let mut k = [0u8; 32];
    k.copy_from_slice(&pk[..32]);
    if r.is_ok() {
        assert!(pl == 32 && sl == 64);
        assert!(vs::oracle_answer(&k) == Some(true));
        assert!(vs::sig_queries() == 1);
        let q = vs::sig_query(0);
        assert!(q.answer && q.key == k && q.msg_len == 4);
        let mut i = 0;
        while i < 64 {
            assert!(q.sig[i] == sig[i]);
            i += 1;
        }
        let mut i = 0;
        while i < 4 {
            assert!(q.msg[i] == msg[i]);
            i += 1;
        }
    } else {
        let all_good = pl == 32 && sl == 64 && vs::oracle_answer(&k) == Some(true) && vs::sig_queries() == 1 && vs::sig_query(0).answer;
        assert!(!all_good);
    }
    // dalek's non-strict verification is never consulted
    assert!(vs::nonstrict_queries() == 0);
    kani::cover!(r.is_ok());
    kani::cover!(r.is_err() && pl == 32 && sl == 64);
}

/// C01: client certificates (raw public keys) are accepted only without intermediates,
/// whatever their bytes; both verifiers insist on raw public keys.
#[kani::proof]
#[kani::unwind(8)]
fn c01_client_cert_no_intermediates() {
    let ee: [u8; 44] = kani::any();
    let cert = Certificate::from(&ee[..]);
    let now = rustls::pki_types::UnixTime::since_unix_epoch(std::time::Duration::from_secs(1));
    assert!(ClientCertificateVerifier.verify_client_cert(&cert, &[], now).is_ok());
    let inter: [u8; 3] = kani::any();
    let chain = [Certificate::from(&inter[..])];
    assert!(ClientCertificateVerifier.verify_client_cert(&cert, &chain, now).is_err());
    assert!(ServerCertificateVerifier.requires_raw_public_keys() && ClientCertificateVerifier.requires_raw_public_keys());
    assert!(ClientCertificateVerifier.offer_client_auth());
}

#[kani::proof]
#[kani::unwind(70)]
#[kani::stub(vs::curve25519_dalek::edwards::CompressedEdwardsY::decompress, vs::decompress_oracle)]
#[kani::stub(iroh_base::PublicKey::verify, vs::verify_oracle)]
#[kani::stub(<vs::ed25519_dalek::VerifyingKey as vs::ed25519_dalek::Verifier<vs::ed25519_dalek::Signature>>::verify, vs::nonstrict_verify_oracle)]
#[kani::stub(n0_error::backtrace_enabled, vstubs::backtrace_disabled)]
fn c01_witness() {
    let pk: [u8; 32] = kani::any();
    let sig: [u8; 64] = kani::any();
    let msg: [u8; 4] = kani::any();
    let r = Ed25519Dalek.verify_signature(&pk, &msg, &sig);
    kani::assume(r.is_ok());
    assert!(false, "witness");
}

/// The id the (stubbed) TLS-name decoder hands back: written by the harness, read by the stub.
static mut DIALED: [u8; 32] = [0; 32];
fn decode_stub(_name: &str) -> Option<iroh_base::EndpointId> {
    Some(vs::key_from(unsafe { DIALED }))
}
/// `name::encode` of the all-zero key (BASE32_DNSSEC of 32 zero bytes is 52 '0's): natively the
/// real `name::decode` maps it to the zero key, which is what the stub returns in the zero-key harness.
const ZERO_NAME: &str = "0000000000000000000000000000000000000000000000000000.iroh.invalid";
const ED25519_SPKI_PREFIX: [u8; 12] = [0x30, 0x2a, 0x30, 0x05, 0x06, 0x03, 0x2b, 0x65, 0x70, 0x03, 0x21, 0x00];

fn server_cert_kernel(symbolic_key: bool) {
    let ee: [u8; 44] = kani::any();
    let key: [u8; 32] = kani::any();
    let with_intermediate: bool = kani::any();
    unsafe {
        DIALED = if symbolic_key { key } else { [0u8; 32] };
    }
    let dialed = unsafe { DIALED };
    let name = rustls::pki_types::ServerName::try_from(ZERO_NAME).unwrap();
    let cert = Certificate::from(&ee[..]);
    let inter = [Certificate::from(&ED25519_SPKI_PREFIX[..3])];
    let chain: &[Certificate] = if with_intermediate { &inter[..] } else { &[] };
    let now = rustls::pki_types::UnixTime::since_unix_epoch(std::time::Duration::from_secs(1));
    let r = ServerCertificateVerifier.verify_server_cert(&cert, chain, &name, &[], now);
    let mut same = true;
    let mut i = 0;
    while i < 44 {
        let want = if i < 12 { ED25519_SPKI_PREFIX[i] } else { dialed[i - 12] };
        if ee[i] != want {
            same = false;
        }
        i += 1;
    }
    // accepted exactly when the presented raw key is the SPKI of the dialed id, with no chain
    assert!(r.is_ok() == (same && !with_intermediate));
    kani::cover!(r.is_ok());
    kani::cover!(r.is_err() && !with_intermediate);
    core::mem::forget(r);
}

/// C01: `verify_server_cert` accepts a presented raw public key exactly when it is the Ed25519
/// SPKI of the dialed endpoint id (the id the TLS server name decodes to) and there are no
/// intermediates.  The name decoder is stubbed (str::split does not finish under CBMC); in this
/// variant it returns the zero key for the zero key's real name, so a counterexample replays natively.
#[kani::proof]
#[kani::unwind(70)]
#[kani::stub(crate::tls::name::decode, decode_stub)]
#[kani::stub(vs::curve25519_dalek::edwards::CompressedEdwardsY::decompress, vs::decompress_all_valid)]
#[kani::stub(n0_error::backtrace_enabled, vstubs::backtrace_disabled)]
fn c01_server_cert_is_spki_of_dialed_id_zero_key() {
    server_cert_kernel(false);
}

/// Same, for every dialed id (the decoder stub returns an arbitrary key).
#[kani::proof]
#[kani::unwind(70)]
#[kani::stub(crate::tls::name::decode, decode_stub)]
#[kani::stub(vs::curve25519_dalek::edwards::CompressedEdwardsY::decompress, vs::decompress_all_valid)]
#[kani::stub(n0_error::backtrace_enabled, vstubs::backtrace_disabled)]
fn c01_server_cert_is_spki_of_dialed_id_any_key() {
    server_cert_kernel(true);
}

#[cfg(test)]
mod playback {
    use super::*;
    include!("/verif/.build/playback/iroh__verifier.rs");
}

