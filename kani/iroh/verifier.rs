#![allow(unreachable_pub, dead_code, missing_docs, unused_imports, unused_variables, unused_mut, static_mut_refs, clippy::all)]
// Kani harnesses for iroh/src/tls/verifier.rs + name.rs (C01 kernels).
use super::*;
use iroh_base::verif_support as vs;
use webpki_types::SignatureVerificationAlgorithm;
include!("/verif/kani/common.rs");

/// C01: the TLS 1.3 handshake signature check accepts exactly when the raw public key is 32
/// bytes that are a valid point, the signature is 64 bytes, and the signature oracle accepts
/// (that key, that message, that signature). Key/signature lengths 31..=33 / 63..=65.
#[kani::proof]
#[kani::unwind(70)]
#[kani::stub(vs::curve25519_dalek::edwards::CompressedEdwardsY::decompress, vs::decompress_oracle)]
#[kani::stub(iroh_base::PublicKey::verify, vs::verify_oracle)]
#[kani::stub(n0_error::backtrace_enabled, vstubs::backtrace_disabled)]
fn c01_handshake_signature_is_checked_with_the_presented_key() {
    let pk: [u8; 33] = kani::any();
    let sig: [u8; 65] = kani::any();
    let msg: [u8; 4] = kani::any();
    let pl: usize = kani::any();
    let sl: usize = kani::any();
    kani::assume(pl >= 31 && pl <= 33 && sl >= 63 && sl <= 65);
    let r = Ed25519Dalek.verify_signature(&pk[..pl], &msg, &sig[..sl]);
    let mut k = [0u8; 32];
    k.copy_from_slice(&pk[..32]);
    if r.is_ok() {
        assert!(pl == 32 && sl == 64);
        assert!(vs::oracle_answer(&k) == Some(true));
        assert!(vs::sig_queries() == 1);
        let q = vs::sig_query(0);
        assert!(q.answer && q.key == k && q.msg_len == 4);
        let mut i = 0;
        while i < 64 {
            assert!(q.sig[i] == sig[i]);
            i += 1;
        }
        let mut i = 0;
        while i < 4 {
            assert!(q.msg[i] == msg[i]);
            i += 1;
        }
    } else {
        let all_good = pl == 32 && sl == 64 && vs::oracle_answer(&k) == Some(true) && vs::sig_queries() == 1 && vs::sig_query(0).answer;
        assert!(!all_good);
    }
    kani::cover!(r.is_ok());
    kani::cover!(r.is_err() && pl == 32 && sl == 64);
}

/// C01: client certificates (raw public keys) are accepted only without intermediates,
/// whatever their bytes; both verifiers insist on raw public keys.
#[kani::proof]
#[kani::unwind(8)]
fn c01_client_cert_no_intermediates() {
    let ee: [u8; 44] = kani::any();
    let cert = Certificate::from(&ee[..]);
    let now = rustls::pki_types::UnixTime::since_unix_epoch(std::time::Duration::from_secs(1));
    assert!(ClientCertificateVerifier.verify_client_cert(&cert, &[], now).is_ok());
    let inter: [u8; 3] = kani::any();
    let chain = [Certificate::from(&inter[..])];
    assert!(ClientCertificateVerifier.verify_client_cert(&cert, &chain, now).is_err());
    assert!(ServerCertificateVerifier.requires_raw_public_keys() && ClientCertificateVerifier.requires_raw_public_keys());
    assert!(ClientCertificateVerifier.offer_client_auth());
}

#[kani::proof]
#[kani::unwind(70)]
#[kani::stub(vs::curve25519_dalek::edwards::CompressedEdwardsY::decompress, vs::decompress_oracle)]
#[kani::stub(iroh_base::PublicKey::verify, vs::verify_oracle)]
#[kani::stub(n0_error::backtrace_enabled, vstubs::backtrace_disabled)]
fn c01_witness() {
    let pk: [u8; 32] = kani::any();
    let sig: [u8; 64] = kani::any();
    let msg: [u8; 4] = kani::any();
    let r = Ed25519Dalek.verify_signature(&pk, &msg, &sig);
    kani::assume(r.is_ok());
    assert!(false, "witness");
}

#[cfg(test)]
mod playback {
    use super::*;
    include!("/verif/.build/playback/iroh__verifier.rs");
}

