#![allow(unreachable_pub, dead_code, missing_docs, unused_imports, unused_variables, unused_mut, static_mut_refs, clippy::all)]
// Kani harnesses for iroh/src/socket/mapped_addrs.rs (C18 classification + AddrMap).
use super::*;
include!("/verif/kani/common.rs");

pub(crate) fn any_socket_addr() -> SocketAddr {
    let v6: bool = kani::any();
    if v6 {
        let ip: [u8; 16] = kani::any();
        SocketAddr::V6(SocketAddrV6::new(Ipv6Addr::from(ip), kani::any(), kani::any(), kani::any()))
    } else {
        let ip: [u8; 4] = kani::any();
        SocketAddr::new(IpAddr::V4(std::net::Ipv4Addr::from(ip)), kani::any())
    }
}

const PREFIX: [u8; 6] = [0xfd, 0x15, 0x07, 0x0a, 0x51, 0x0b];

/// C18: classification of *every* socket address: synthetic kinds are recognised exactly by
/// the reserved 64-bit prefixes fd15:070a:510b:000{0,1,3}; everything else (all IPv4, all
/// other IPv6) is an ordinary IP address and is passed through unchanged.
#[kani::proof]
#[kani::unwind(20)]
#[kani::stub(n0_error::backtrace_enabled, vstubs::backtrace_disabled)]
fn c18_classification_all_addresses() {
    let a = any_socket_addr();
    let m = MultipathMappedAddr::from(a);
    let reserved_subnet = match a {
        SocketAddr::V4(_) => None,
        SocketAddr::V6(v6) => {
            let o = v6.ip().octets();
            if o[0] == PREFIX[0] && o[1] == PREFIX[1] && o[2] == PREFIX[2] && o[3] == PREFIX[3] && o[4] == PREFIX[4] && o[5] == PREFIX[5] && o[6] == 0 {
                Some(o[7])
            } else {
                None
            }
        }
    };
    match &m {
        MultipathMappedAddr::Mixed(x) => {
            assert!(reserved_subnet == Some(0));
            assert!(IpAddr::V6(x.0) == a.ip());
            assert!(x.private_socket_addr().ip() == a.ip() && x.private_socket_addr().port() == 12345);
        }
        MultipathMappedAddr::Relay(x) => {
            assert!(reserved_subnet == Some(1));
            assert!(IpAddr::V6(x.0) == a.ip());
            assert!(x.private_socket_addr().ip() == a.ip() && x.private_socket_addr().port() == 12345);
        }
        MultipathMappedAddr::Custom(x) => {
            assert!(reserved_subnet == Some(3));
            assert!(IpAddr::V6(x.0) == a.ip());
            assert!(x.private_socket_addr().ip() == a.ip() && x.private_socket_addr().port() == 12345);
        }
        MultipathMappedAddr::Ip(b) => {
            assert!(!matches!(reserved_subnet, Some(0) | Some(1) | Some(3)));
            assert!(*b == a);
        }
    }
    kani::cover!(matches!(m, MultipathMappedAddr::Mixed(_)));
    kani::cover!(matches!(m, MultipathMappedAddr::Relay(_)));
    kani::cover!(matches!(m, MultipathMappedAddr::Custom(_)));
    kani::cover!(matches!(m, MultipathMappedAddr::Ip(SocketAddr::V6(_))) && reserved_subnet == Some(2));
    kani::cover!(matches!(m, MultipathMappedAddr::Ip(SocketAddr::V4(_))));
}

/// C18: the three TryFrom<Ipv6Addr> ranges are pairwise disjoint and a synthetic address
/// survives private_socket_addr -> classification as the same kind with the same bits.
#[kani::proof]
#[kani::unwind(20)]
#[kani::stub(n0_error::backtrace_enabled, vstubs::backtrace_disabled)]
fn c18_kinds_disjoint_and_roundtrip() {
    let ip: [u8; 16] = kani::any();
    let v6 = Ipv6Addr::from(ip);
    let e = EndpointIdMappedAddr::try_from(v6).is_ok();
    let r = RelayMappedAddr::try_from(v6).is_ok();
    let c = CustomMappedAddr::try_from(v6).is_ok();
    assert!((e as u8) + (r as u8) + (c as u8) <= 1);
    assert!(CustomMappedAddr::try_from(IpAddr::V6(v6)).is_ok() == c);
    let v4: [u8; 4] = kani::any();
    assert!(CustomMappedAddr::try_from(IpAddr::V4(std::net::Ipv4Addr::from(v4))).is_err());
    if let Ok(x) = RelayMappedAddr::try_from(v6) {
        match MultipathMappedAddr::from(x.private_socket_addr()) {
            MultipathMappedAddr::Relay(y) => assert!(x == y),
            _ => assert!(false, "relay mapped addr not recognised"),
        }
    }
    if let Ok(x) = EndpointIdMappedAddr::try_from(v6) {
        match MultipathMappedAddr::from(x.private_socket_addr()) {
            MultipathMappedAddr::Mixed(y) => assert!(x == y),
            _ => assert!(false, "endpoint mapped addr not recognised"),
        }
    }
    if let Ok(x) = CustomMappedAddr::try_from(v6) {
        match MultipathMappedAddr::from(x.private_socket_addr()) {
            MultipathMappedAddr::Custom(y) => assert!(x == y),
            _ => assert!(false, "custom mapped addr not recognised"),
        }
    }
    // the default fake address is not any synthetic kind's... it is in the endpoint-id range
    kani::cover!(e);
    kani::cover!(r);
    kani::cover!(c);
}

#[kani::proof]
#[kani::unwind(20)]
#[kani::stub(n0_error::backtrace_enabled, vstubs::backtrace_disabled)]
fn c18_witness() {
    let a = any_socket_addr();
    let m = MultipathMappedAddr::from(a);
    kani::assume(matches!(m, MultipathMappedAddr::Custom(_)));
    assert!(false, "witness");
}

#[cfg(test)]
mod playback {
    use super::*;
    include!("/verif/.build/playback/iroh__mapped_addrs.rs");
}
