#![allow(unreachable_pub, dead_code, missing_docs, unused_imports, unused_variables, unused_mut, static_mut_refs, clippy::all)]
// Kani harnesses for iroh/src/socket/transports/ip.rs (C19: which bound socket may carry a datagram).
use super::*;
use std::net::{Ipv4Addr, Ipv6Addr};
include!("/verif/kani/common.rs");

fn any_v4() -> Ipv4Addr {
    Ipv4Addr::from(kani::any::<[u8; 4]>())
}
fn any_v6() -> Ipv6Addr {
    Ipv6Addr::from(kani::any::<[u8; 16]>())
}

fn any_config() -> Config {
    if kani::any() {
        let p: u8 = kani::any();
        kani::assume(p <= 32);
        Config::V4 { ip_net: Ipv4Net::new(any_v4(), p).unwrap(), port: kani::any(), is_required: kani::any(), is_default: kani::any() }
    } else {
        let p: u8 = kani::any();
        kani::assume(p <= 128);
        Config::V6 { ip_net: Ipv6Net::new(any_v6(), p).unwrap(), scope_id: kani::any(), port: kani::any(), is_required: kani::any(), is_default: kani::any() }
    }
}

fn any_dst() -> SocketAddr {
    if kani::any() {
        SocketAddr::V4(SocketAddrV4::new(any_v4(), kani::any()))
    } else {
        SocketAddr::V6(SocketAddrV6::new(any_v6(), kani::any(), kani::any(), kani::any()))
    }
}

fn mask32(p: u8) -> u32 {
    if p == 0 { 0 } else { u32::MAX << (32 - p as u32) }
}
fn mask128(p: u8) -> u128 {
    if p == 0 { 0 } else { u128::MAX << (128 - p as u32) }
}

/// C19: is_valid_send_addr equals the statement's rule for every bound-socket configuration
/// (any address, any prefix 0..=32/128, any scope), optional source and destination.
#[kani::proof]
#[kani::unwind(20)]
fn c19_valid_send_addr_matches_rule() {
    let cfg = any_config();
    let dst = any_dst();
    let src: Option<IpAddr> = if kani::any() {
        Some(if kani::any() { IpAddr::V4(any_v4()) } else { IpAddr::V6(any_v6()) })
    } else {
        None
    };
    let got = cfg.is_valid_send_addr(src, dst);
    let want = match (src, cfg) {
        (Some(IpAddr::V4(s)), Config::V4 { ip_net, .. }) => u32::from(ip_net.addr()) == 0 || ip_net.addr() == s,
        (Some(IpAddr::V6(s)), Config::V6 { ip_net, .. }) => u128::from(ip_net.addr()) == 0 || ip_net.addr() == s,
        (Some(_), _) => false,
        (None, Config::V4 { ip_net, .. }) => match dst {
            SocketAddr::V4(d) => {
                let m = mask32(ip_net.prefix_len());
                (u32::from(*d.ip()) & m) == (u32::from(ip_net.addr()) & m)
            }
            _ => false,
        },
        (None, Config::V6 { ip_net, scope_id, .. }) => match dst {
            SocketAddr::V6(d) => {
                let m = mask128(ip_net.prefix_len());
                let in_net = (u128::from(*d.ip()) & m) == (u128::from(ip_net.addr()) & m);
                let link_local = (d.ip().segments()[0] & 0xffc0) == 0xfe80;
                in_net || (link_local && scope_id == d.scope_id())
            }
            _ => false,
        },
    };
    assert!(got == want);
    kani::cover!(got && src.is_none());
    kani::cover!(got && src.is_some());
    kani::cover!(!got);
}

/// C19: the default-route fall-back applies only to the default-flagged socket of the right
/// family (family of the source if given, else of the destination).
#[kani::proof]
#[kani::unwind(20)]
fn c19_valid_default_addr_matches_rule() {
    let cfg = any_config();
    let dst = any_dst();
    let src: Option<IpAddr> = if kani::any() {
        Some(if kani::any() { IpAddr::V4(any_v4()) } else { IpAddr::V6(any_v6()) })
    } else {
        None
    };
    let got = cfg.is_valid_default_addr(src, dst);
    let want_v4 = match src {
        Some(s) => s.is_ipv4(),
        None => dst.is_ipv4(),
    };
    let want = cfg.is_default() && (cfg.is_ipv4() == want_v4);
    assert!(got == want);
    assert!(cfg.is_ipv4() != cfg.is_ipv6());
    assert!(cfg.prefix_len() <= 128);
    kani::cover!(got);
}

#[kani::proof]
#[kani::unwind(20)]
fn c19_witness() {
    let cfg = any_config();
    let dst = any_dst();
    kani::assume(cfg.is_valid_send_addr(None, dst) && cfg.is_ipv6() && cfg.prefix_len() == 77);
    assert!(false, "witness");
}

#[cfg(test)]
mod playback {
    use super::*;
    include!("/verif/.build/playback/iroh__ip.rs");
}
