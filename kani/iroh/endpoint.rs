#![allow(unreachable_pub, dead_code, missing_docs, unused_imports)]
// Hook target for iroh/src/endpoint.rs. The C20 harnesses written for
// Builder::bind_addr_with_opts cannot be compiled by Kani 0.68 (the Builder's drop glue
// reaches thread-locals with destructors => kani-compiler panic); they are kept for
// reference in /verif/kani/attic/c20_endpoint.rs. Nothing is decided from this module.
