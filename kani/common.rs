// Shared stub set for every Kani harness (include!()-d into each harness module).
// Every function here is part of the claim of the checks that name it in
// #[kani::stub(..)]; the driver lists the stubs actually applied in the evidence.
#[allow(dead_code, unused_imports, unreachable_pub)]
pub(crate) mod vstubs {
    /// n0_error::backtrace_enabled -> false (no std::env::var on error paths).
    pub fn backtrace_disabled() -> bool {
        false
    }

    /// alloc::fmt::format -> fixed one-byte placeholder (formatting machinery is far beyond
    /// CBMC's reach; used only where the formatted text is not the subject).
    pub fn format_placeholder(_args: core::fmt::Arguments<'_>) -> String {
        // spare capacity so that appending to the formatted text never reallocates
        let mut s = String::with_capacity(64);
        s.push('#');
        s
    }

    /// rand::random::<T>() -> arbitrary bit pattern of T (used for integer / byte-array T only).
    pub fn any_random<T>() -> T
    where
        rand::distr::StandardUniform: rand::distr::Distribution<T>,
    {
        let mut v = core::mem::MaybeUninit::<T>::uninit();
        let p = v.as_mut_ptr() as *mut u8;
        let n = core::mem::size_of::<T>();
        let mut i = 0;
        while i < n {
            unsafe { *p.add(i) = kani::any() };
            i += 1;
        }
        unsafe { v.assume_init() }
    }
}
