#![allow(unreachable_pub, dead_code, missing_docs, unused_imports, unused_variables, unused_mut, static_mut_refs, clippy::all)]
// Kani harnesses for iroh/src/address_lookup.rs (C29: the result stream protocol).
use super::*;
use iroh_base::verif_support as vs;
use std::task::{Context, Waker};
include!("/verif/kani/common.rs");
include!("/verif/kani/common_tracing.rs");

#[derive(Clone, Copy, PartialEq)]
enum Ev {
    Pending,
    Item,
    Error,
    End,
}

fn any_ev() -> Ev {
    match kani::any::<u8>() % 4 {
        0 => Ev::Pending,
        1 => Ev::Item,
        2 => Ev::Error,
        _ => Ev::End,
    }
}

#[derive(Debug)]
struct MockErr;
impl std::fmt::Display for MockErr {
    fn fmt(&self, _f: &mut std::fmt::Formatter<'_>) -> std::fmt::Result {
        Ok(())
    }
}
impl std::error::Error for MockErr {}

static TAGS: [&str; 2] = ["s0", "s1"];
static mut PRODUCED_ITEMS: usize = 0;
static mut PRODUCED_ERRORS: usize = 0;

/// A lookup service scripted by symbolic choices: per poll it pends, yields an item, yields
/// an error or ends (and stays ended).
struct Scripted {
    tag: usize,
    script: [Ev; 2],
    pos: usize,
    ended: bool,
}

impl Stream for Scripted {
    type Item = Result<Item, Error>;
    fn poll_next(mut self: Pin<&mut Self>, cx: &mut Context<'_>) -> Poll<Option<Self::Item>> {
        if self.ended || self.pos >= 2 {
            self.ended = true;
            return Poll::Ready(None);
        }
        let ev = self.script[self.pos];
        self.pos += 1;
        match ev {
            Ev::Pending => {
                cx.waker().wake_by_ref();
                Poll::Pending
            }
            Ev::Item => {
                unsafe { PRODUCED_ITEMS += 1 };
                let info = EndpointInfo::new(vs::key_from([4u8; 32]));
                Poll::Ready(Some(Ok(Item::new(info, TAGS[self.tag], None))))
            }
            Ev::Error => {
                unsafe { PRODUCED_ERRORS += 1 };
                Poll::Ready(Some(Err(Error::from_err(TAGS[self.tag], MockErr))))
            }
            Ev::End => {
                self.ended = true;
                Poll::Ready(None)
            }
        }
    }
}

/// C29: over every pair of service scripts (2 services x 2 symbolic events each), polling the
/// merged result stream to its end yields every produced item and every produced error
/// exactly once, then exactly one terminal: a NoResults failure carrying all errors iff no
/// item was produced, otherwise the plain end; after the end every poll yields None.
#[kani::proof]
#[kani::unwind(12)]
#[kani::stub(vs::curve25519_dalek::edwards::CompressedEdwardsY::decompress, vs::decompress_all_valid)]
#[kani::stub(n0_error::backtrace_enabled, vstubs::backtrace_disabled)]
#[kani::stub(tracing::__macro_support::__is_enabled, tstubs::is_enabled)]
#[kani::stub(tracing::callsite::DefaultCallsite::interest, tstubs::interest)]
#[kani::stub(tracing::Event::dispatch, tstubs::dispatch)]
fn c29_stream_yields_everything_then_one_terminal() {
    let s0 = Scripted { tag: 0, script: [any_ev(), any_ev()], pos: 0, ended: false };
    let s1 = Scripted { tag: 1, script: [any_ev(), any_ev()], pos: 0, ended: false };
    let streams: Vec<BoxStream<Result<Item, Error>>> = vec![Box::pin(s0), Box::pin(s1)];
    let mut st = AddressLookupStream::new(streams.into_iter());
    let mut cx = Context::from_waker(Waker::noop());
    let (mut items, mut errors, mut terminals, mut nores_errs) = (0usize, 0usize, 0usize, 0usize);
    let mut ended = false;
    let mut polls = 0;
    while polls < 9 {
        match Pin::new(&mut st).poll_next(&mut cx) {
            Poll::Pending => assert!(!ended, "Pending after the end"),
            Poll::Ready(Some(Ok(Ok(it)))) => {
                assert!(!ended);
                items += 1;
                core::mem::forget(it);
            }
            Poll::Ready(Some(Ok(Err(e)))) => {
                assert!(!ended);
                errors += 1;
                core::mem::forget(e);
            }
            Poll::Ready(Some(Err(f))) => {
                assert!(!ended);
                terminals += 1;
                match &f {
                    AddressLookupFailed::NoResults { errors, .. } => nores_errs = errors.len(),
                    _ => assert!(false, "services are configured"),
                }
                core::mem::forget(f);
                ended = true;
            }
            Poll::Ready(None) => ended = true,
        }
        polls += 1;
    }
    // 2 services x (<= 2 events + end) fit into 9 polls: the stream has ended
    assert!(ended);
    unsafe {
        assert!(items == PRODUCED_ITEMS && errors == PRODUCED_ERRORS);
        if PRODUCED_ITEMS == 0 {
            assert!(terminals == 1 && nores_errs == PRODUCED_ERRORS);
        } else {
            assert!(terminals == 0);
        }
    }
    kani::cover!(items == 2 && errors == 1);
    kani::cover!(terminals == 1 && nores_errs == 2);
    core::mem::forget(st);
}

/// C29: no service configured => exactly one NoServiceConfigured failure, then None forever.
#[kani::proof]
#[kani::unwind(6)]
#[kani::stub(n0_error::backtrace_enabled, vstubs::backtrace_disabled)]
fn c29_no_services() {
    let mut st = AddressLookupStream::empty();
    let mut cx = Context::from_waker(Waker::noop());
    let first = Pin::new(&mut st).poll_next(&mut cx);
    assert!(matches!(first, Poll::Ready(Some(Err(AddressLookupFailed::NoServiceConfigured { .. })))));
    core::mem::forget(first);
    let mut k = 0;
    while k < 3 {
        assert!(matches!(Pin::new(&mut st).poll_next(&mut cx), Poll::Ready(None)));
        k += 1;
    }
    core::mem::forget(st);
}

#[cfg(test)]
mod playback {
    use super::*;
    include!("/verif/.build/playback/iroh__address_lookup.rs");
}
