#![allow(unreachable_pub, dead_code, missing_docs, unused_imports, unused_variables, unused_mut, static_mut_refs, clippy::all)]
// Kani harnesses for iroh/src/endpoint.rs (C20: bind addresses accepted independent of order).
use super::*;
use std::net::{IpAddr, Ipv4Addr, Ipv6Addr};
include!("/verif/kani/common.rs");
include!("/verif/kani/common_tracing.rs");

#[derive(Clone, Copy)]
struct Req {
    v6: bool,
    prefix: u8,
    default: Option<bool>,
}

fn any_req() -> Req {
    let d: u8 = kani::any();
    Req { v6: kani::any(), prefix: kani::any(), default: match d % 3 { 0 => None, 1 => Some(true), _ => Some(false) } }
}

fn apply(b: Builder, r: Req) -> Result<Builder, InvalidSocketAddr> {
    let mut opts = BindOpts::default().set_prefix_len(r.prefix);
    if let Some(d) = r.default {
        opts = opts.set_is_default_route(d);
    }
    let addr: SocketAddr = if r.v6 {
        SocketAddr::new(IpAddr::V6(Ipv6Addr::LOCALHOST), 0)
    } else {
        SocketAddr::new(IpAddr::V4(Ipv4Addr::LOCALHOST), 0)
    };
    b.bind_addr_with_opts(addr, opts)
}

fn is_default(r: Req) -> bool {
    r.default.unwrap_or(r.prefix == 0)
}
fn bad_prefix(r: Req) -> bool {
    r.prefix > if r.v6 { 128 } else { 32 }
}

/// C20: for every pair of bind requests (family, prefix 0..=255, default-route flag
/// None/Some) the builder accepts both orders or rejects both orders, and rejects exactly
/// when two sockets of one family are default routes or a prefix length is invalid.
#[kani::proof]
#[kani::unwind(6)]
#[kani::stub(n0_error::backtrace_enabled, vstubs::backtrace_disabled)]
#[kani::stub(tracing::__macro_support::__is_enabled, tstubs::is_enabled)]
#[kani::stub(tracing::callsite::DefaultCallsite::interest, tstubs::interest)]
#[kani::stub(tracing::Event::dispatch, tstubs::dispatch)]
fn c20_two_binds_order_independent() {
    let r1 = any_req();
    let r2 = any_req();
    let ab = apply(Builder::empty(), r1).and_then(|b| apply(b, r2));
    let ba = apply(Builder::empty(), r2).and_then(|b| apply(b, r1));
    let want_reject = bad_prefix(r1) || bad_prefix(r2) || (r1.v6 == r2.v6 && is_default(r1) && is_default(r2));
    assert!(ab.is_ok() == ba.is_ok());
    assert!(ab.is_err() == want_reject);
    kani::cover!(ab.is_ok() && is_default(r1) && r1.v6 == r2.v6);
    kani::cover!(ab.is_err() && !bad_prefix(r1) && !bad_prefix(r2));
    core::mem::forget((ab, ba));
}

#[kani::proof]
#[kani::unwind(6)]
#[kani::stub(n0_error::backtrace_enabled, vstubs::backtrace_disabled)]
#[kani::stub(tracing::__macro_support::__is_enabled, tstubs::is_enabled)]
#[kani::stub(tracing::callsite::DefaultCallsite::interest, tstubs::interest)]
#[kani::stub(tracing::Event::dispatch, tstubs::dispatch)]
fn c20_witness() {
    let r1 = any_req();
    let r2 = any_req();
    let ab = apply(Builder::empty(), r1).and_then(|b| apply(b, r2));
    kani::assume(ab.is_ok());
    core::mem::forget(ab);
    assert!(false, "witness");
}

#[cfg(test)]
mod playback {
    use super::*;
    include!("/verif/.build/playback/iroh__endpoint.rs");
}

#[kani::proof]
#[kani::unwind(6)]
#[kani::stub(n0_error::backtrace_enabled, vstubs::backtrace_disabled)]
#[kani::stub(tracing::__macro_support::__is_enabled, tstubs::is_enabled)]
#[kani::stub(tracing::callsite::DefaultCallsite::interest, tstubs::interest)]
#[kani::stub(tracing::Event::dispatch, tstubs::dispatch)]
fn zz_probe_builder_uninit() {
    let b: Builder = unsafe { core::mem::MaybeUninit::<Builder>::uninit().assume_init() };
    let r = apply(b, any_req());
    core::mem::forget(r);
}
