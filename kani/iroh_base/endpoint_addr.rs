#![allow(unreachable_pub, dead_code, missing_docs, unused_imports, unused_variables, unused_mut, static_mut_refs, clippy::all)]
// Kani harnesses for iroh-base/src/endpoint_addr.rs (C02: custom transport addresses).
use super::*;
include!("/verif/kani/common.rs");

/// C02: CustomAddr binary round trip for every id, every payload length 0..=40 (covers the
/// 30/31 inline/heap boundary) and every payload content; accessors agree with the input.
#[kani::proof]
#[kani::unwind(50)]
#[kani::stub(n0_error::backtrace_enabled, vstubs::backtrace_disabled)]
fn c02_custom_addr_binary_roundtrip() {
    let id: u64 = kani::any();
    let buf: [u8; 40] = kani::any();
    let len: usize = kani::any();
    kani::assume(len <= 40);
    let a = CustomAddr::from_parts(id, &buf[..len]);
    assert!(a.id() == id);
    assert!(a.data().len() == len);
    assert!(matches!(a.data, CustomAddrBytes::Inline { .. }) == (len <= 30));
    let i: usize = kani::any();
    let i = if len == 0 { 0 } else { i % len };
    if len > 0 {
        assert!(a.data()[i] == buf[i]);
    }
    let v = a.to_vec();
    assert!(v.len() == 8 + len);
    if len > 0 {
        assert!(v[8 + i] == buf[i]);
    }
    let j: usize = kani::any();
    kani::assume(j < 8);
    assert!(v[j] == id.to_le_bytes()[j]);
    let r = CustomAddr::from_bytes(&v);
    match &r {
        Ok(b) => {
            assert!(b.id() == id);
            assert!(b.data().len() == len);
            if len > 0 {
                assert!(b.data()[i] == buf[i]);
            }
            assert!(matches!(b.data, CustomAddrBytes::Inline { .. }) == (len <= 30));
        }
        Err(_) => assert!(false, "from_bytes(to_vec) failed"),
    }
    kani::cover!(len == 0);
    kani::cover!(len == 30);
    kani::cover!(len == 31);
    kani::cover!(len == 40);
    core::mem::forget(a);
    core::mem::forget(v);
    core::mem::forget(r);
}

/// C02: the derived equality agrees across the inline/heap boundary after a round trip.
#[kani::proof]
#[kani::unwind(50)]
#[kani::stub(n0_error::backtrace_enabled, vstubs::backtrace_disabled)]
fn c02_custom_addr_eq_after_roundtrip() {
    let id: u64 = kani::any();
    let buf: [u8; 33] = kani::any();
    let len: usize = kani::any();
    kani::assume(len >= 28 && len <= 33);
    let a = CustomAddr::from_parts(id, &buf[..len]);
    let v = a.to_vec();
    let b = CustomAddr::from_bytes(&v).unwrap();
    assert!(a == b);
    core::mem::forget(a);
    core::mem::forget(v);
    core::mem::forget(b);
}

/// C02: from_bytes is total: Err iff shorter than 8 bytes, never panics; id = LE of first 8.
#[kani::proof]
#[kani::unwind(50)]
#[kani::stub(n0_error::backtrace_enabled, vstubs::backtrace_disabled)]
fn c02_custom_addr_from_bytes_total() {
    let buf: [u8; 48] = kani::any();
    let len: usize = kani::any();
    kani::assume(len <= 48);
    let r = CustomAddr::from_bytes(&buf[..len]);
    assert!(r.is_err() == (len < 8));
    if let Ok(a) = &r {
        assert!(a.data().len() == len - 8);
        let mut idb = [0u8; 8];
        idb.copy_from_slice(&buf[..8]);
        assert!(a.id() == u64::from_le_bytes(idb));
        let i: usize = kani::any();
        if i < len - 8 {
            assert!(a.data()[i] == buf[8 + i]);
        }
    }
    kani::cover!(len == 7);
    kani::cover!(len == 8);
    kani::cover!(len == 48);
    core::mem::forget(r);
}

#[kani::proof]
#[kani::unwind(50)]
fn c02_custom_addr_witness() {
    let buf: [u8; 40] = kani::any();
    let len: usize = kani::any();
    kani::assume(len <= 40);
    let a = CustomAddr::from_parts(kani::any(), &buf[..len]);
    let v = a.to_vec();
    let r = CustomAddr::from_bytes(&v);
    kani::assume(r.is_ok());
    core::mem::forget(a);
    core::mem::forget(v);
    core::mem::forget(r);
    assert!(false, "witness");
}

#[cfg(test)]
mod playback {
    use super::*;
    include!("/verif/.build/playback/iroh_base__endpoint_addr.rs");
}
