#![allow(unreachable_pub, dead_code, missing_docs, unused_imports, unused_variables, unused_mut, static_mut_refs, clippy::all)]
// cfg(kani)-only support module of iroh-base (hooked in as `pub mod verif_support`):
// crypto oracles used as Kani stubs by the harnesses of every crate. Only iroh-base depends on
// curve25519-dalek / ed25519-dalek, so the crates and the stub functions are re-exported here.
#![allow(missing_docs, unreachable_pub, dead_code, static_mut_refs, clippy::unwrap_used)]

pub use curve25519_dalek;
use curve25519_dalek::{
    edwards::{CompressedEdwardsY, EdwardsPoint},
    traits::Identity,
};
pub use ed25519_dalek;

use crate::{PublicKey, Signature, SignatureError};

fn words(b: &[u8; 32]) -> [u64; 4] {
    [
        u64::from_le_bytes([b[0], b[1], b[2], b[3], b[4], b[5], b[6], b[7]]),
        u64::from_le_bytes([b[8], b[9], b[10], b[11], b[12], b[13], b[14], b[15]]),
        u64::from_le_bytes([b[16], b[17], b[18], b[19], b[20], b[21], b[22], b[23]]),
        u64::from_le_bytes([b[24], b[25], b[26], b[27], b[28], b[29], b[30], b[31]]),
    ]
}

/// Stub for `CompressedEdwardsY::decompress`: every 32-byte string is a curve point.
pub fn decompress_all_valid(_c: &CompressedEdwardsY) -> Option<EdwardsPoint> {
    Some(EdwardsPoint::identity())
}

/// The bytes the key under test was decompressed from: written by a harness before it calls
/// the code under test, read by `compress_model`.
pub static mut DECOMPRESSED_FROM: [u8; 32] = [0; 32];

/// Is `b` the canonical encoding of a point: y < p = 2^255-19, and not (x == 0 with the sign bit
/// set; x == 0 exactly for y = 1 and y = p-1).
pub fn is_canonical(b: &[u8; 32]) -> bool {
    let sign = b[31] & 0x80 != 0;
    let top = b[31] & 0x7f;
    let mut mid_ff = true;
    let mut mid_00 = true;
    let mut i = 1;
    while i < 31 {
        if b[i] != 0xff {
            mid_ff = false;
        }
        if b[i] != 0 {
            mid_00 = false;
        }
        i += 1;
    }
    let y_ge_p = mid_ff && top == 0x7f && b[0] >= 0xed;
    let y_is_1 = mid_00 && top == 0 && b[0] == 1;
    let y_is_p_minus_1 = mid_ff && top == 0x7f && b[0] == 0xec;
    !y_ge_p && !(sign && (y_is_1 || y_is_p_minus_1))
}

/// Stub for `EdwardsPoint::compress` (field arithmetic, out of CBMC's reach) for harnesses in
/// which the only point in play was decompressed from `DECOMPRESSED_FROM`: compress(decompress(b))
/// is b exactly when b is canonical, and some other string otherwise.  Not reached on the
/// unchanged tree (iroh keeps the bytes it accepted and never re-compresses).
pub fn compress_model(_p: &EdwardsPoint) -> CompressedEdwardsY {
    let b = unsafe { DECOMPRESSED_FROM };
    if is_canonical(&b) {
        CompressedEdwardsY(b)
    } else {
        let c: [u8; 32] = kani::any();
        kani::assume(words(&c) != words(&b));
        CompressedEdwardsY(c)
    }
}

pub const ORACLE_SLOTS: usize = 4;
pub static mut ORACLE_N: usize = 0;
pub static mut ORACLE_KEYS: [[u64; 4]; ORACLE_SLOTS] = [[0; 4]; ORACLE_SLOTS];
pub static mut ORACLE_ANS: [bool; ORACLE_SLOTS] = [false; ORACLE_SLOTS];

/// Stub for `CompressedEdwardsY::decompress`: *validity oracle*. Answers "is a curve point"
/// nondeterministically, but deterministically per byte string within one run, and records
/// every query so harnesses can assert that a key was accepted only after the oracle said yes
/// for exactly those bytes.
pub fn decompress_oracle(c: &CompressedEdwardsY) -> Option<EdwardsPoint> {
    let w = words(c.as_bytes());
    unsafe {
        let mut i = 0;
        while i < ORACLE_SLOTS {
            if i < ORACLE_N && ORACLE_KEYS[i] == w {
                return if ORACLE_ANS[i] { Some(EdwardsPoint::identity()) } else { None };
            }
            i += 1;
        }
        let ans: bool = kani::any();
        kani::assume(ORACLE_N < ORACLE_SLOTS);
        ORACLE_KEYS[ORACLE_N] = w;
        ORACLE_ANS[ORACLE_N] = ans;
        ORACLE_N += 1;
        if ans { Some(EdwardsPoint::identity()) } else { None }
    }
}

/// What the validity oracle answered for `bytes` (None: never asked).
pub fn oracle_answer(bytes: &[u8; 32]) -> Option<bool> {
    let w = words(bytes);
    unsafe {
        let mut i = 0;
        while i < ORACLE_SLOTS {
            if i < ORACLE_N && ORACLE_KEYS[i] == w {
                return Some(ORACLE_ANS[i]);
            }
            i += 1;
        }
    }
    None
}

pub fn oracle_queries() -> usize {
    unsafe { ORACLE_N }
}

// ---------------------------------------------------------------- signature oracle
pub const SIG_SLOTS: usize = 3;
pub const SIG_MSG_MAX: usize = 64;
#[derive(Clone, Copy)]
pub struct SigQuery {
    pub key: [u8; 32],
    pub sig: [u8; 64],
    pub msg: [u8; SIG_MSG_MAX],
    pub msg_len: usize,
    pub answer: bool,
}
pub static mut SIG_N: usize = 0;
pub static mut SIG_Q: [SigQuery; SIG_SLOTS] =
    [SigQuery { key: [0; 32], sig: [0; 64], msg: [0; SIG_MSG_MAX], msg_len: 0, answer: false }; SIG_SLOTS];

/// Stub for `PublicKey::verify`: *signature oracle* (uninterpreted Ed25519). Records
/// (key, message, signature) and returns a nondeterministic verdict.
pub fn verify_oracle(
    this: &PublicKey,
    message: &[u8],
    signature: &Signature,
) -> Result<(), SignatureError> {
    let answer: bool = kani::any();
    unsafe {
        kani::assume(SIG_N < SIG_SLOTS);
        let q = &mut SIG_Q[SIG_N];
        q.key = *this.as_bytes();
        q.sig = signature.to_bytes();
        let n = if message.len() < SIG_MSG_MAX { message.len() } else { SIG_MSG_MAX };
        q.msg[..n].copy_from_slice(&message[..n]);
        q.msg_len = message.len();
        q.answer = answer;
        SIG_N += 1;
    }
    if answer { Ok(()) } else { Err(SignatureError::new()) }
}

pub static mut NONSTRICT_N: usize = 0;
/// Stub for dalek's *non-strict* `Verifier::verify` of `VerifyingKey`: iroh must not use it
/// (it accepts small-order keys and non-canonical encodings). Nondeterministic verdict; counts calls.
pub fn nonstrict_verify_oracle(
    _this: &ed25519_dalek::VerifyingKey,
    _message: &[u8],
    _signature: &ed25519_dalek::Signature,
) -> Result<(), ed25519_dalek::SignatureError> {
    unsafe {
        NONSTRICT_N += 1;
    }
    if kani::any() { Ok(()) } else { Err(ed25519_dalek::SignatureError::new()) }
}
pub fn nonstrict_queries() -> usize {
    unsafe { NONSTRICT_N }
}

pub fn sig_queries() -> usize {
    unsafe { SIG_N }
}
pub fn sig_query(i: usize) -> SigQuery {
    unsafe { SIG_Q[i] }
}

/// A `PublicKey` with arbitrary bytes (requires the `decompress_all_valid` or oracle stub).
pub fn any_key() -> PublicKey {
    let b: [u8; 32] = kani::any();
    PublicKey::from_bytes(&b).unwrap()
}
pub fn key_from(b: [u8; 32]) -> PublicKey {
    PublicKey::from_bytes(&b).unwrap()
}
