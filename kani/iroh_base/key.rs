#![allow(unreachable_pub, dead_code, missing_docs, unused_imports, unused_variables, unused_mut, static_mut_refs, clippy::all)]
// Kani harnesses for iroh-base/src/key.rs (C02: key / signature encodings).
use super::*;
use crate::verif_support as vs;
include!("/verif/kani/common.rs");

fn hexval(c: u8) -> Option<u8> {
    match c {
        b'0'..=b'9' => Some(c - b'0'),
        b'a'..=b'f' => Some(c - b'a' + 10),
        _ => None,
    }
}

/// C02: a PublicKey is only ever accepted from raw bytes if the curve-validity oracle was
/// asked about exactly those bytes and said yes; accepted keys carry exactly those bytes.
#[kani::proof]
#[kani::stub(curve25519_dalek::edwards::CompressedEdwardsY::decompress, vs::decompress_oracle)]
#[kani::stub(curve25519_dalek::edwards::EdwardsPoint::compress, vs::compress_model)]
#[kani::stub(n0_error::backtrace_enabled, vstubs::backtrace_disabled)]
fn c02_key_from_bytes_iff_valid_point() {
    let bytes: [u8; 32] = kani::any();
    unsafe {
        vs::DECOMPRESSED_FROM = bytes;
    }
    let r = PublicKey::from_bytes(&bytes);
    let ans = vs::oracle_answer(&bytes);
    assert!(r.is_ok() == (ans == Some(true)));
    if let Ok(k) = r {
        assert!(*k.as_bytes() == bytes);
        let r2 = PublicKey::try_from(&bytes);
        assert!(r2.is_ok());
        let _ = k.fmt_short();
    }
    kani::cover!(r.is_ok());
    kani::cover!(r.is_err());
}

/// C02: the three kinds of non-canonical encodings that curve25519-dalek accepts (y = p+1, y = p,
/// and x = 0 with the sign bit set) are kept byte for byte by every byte-level constructor, so
/// that a key obtained one way equals the same key obtained another way.  Concrete inputs that
/// are valid points natively: a counterexample replays against the real build.
#[kani::proof]
#[kani::unwind(34)]
#[kani::stub(curve25519_dalek::edwards::CompressedEdwardsY::decompress, vs::decompress_all_valid)]
#[kani::stub(curve25519_dalek::edwards::EdwardsPoint::compress, vs::compress_model)]
#[kani::stub(n0_error::backtrace_enabled, vstubs::backtrace_disabled)]
fn c02_key_noncanonical_bytes_kept() {
    let which: u8 = kani::any();
    let mut b = [0xffu8; 32];
    match which % 3 {
        0 => {
            // y = p + 1 == 1: the identity, non-reduced
            b[0] = 0xee;
            b[31] = 0x7f;
        }
        1 => {
            // y = p == 0
            b[0] = 0xed;
            b[31] = 0x7f;
        }
        _ => {
            // y = 1, x = 0, sign bit set
            b = [0u8; 32];
            b[0] = 1;
            b[31] = 0x80;
        }
    }
    assert!(!vs::is_canonical(&b));
    unsafe {
        vs::DECOMPRESSED_FROM = b;
    }
    let k1 = PublicKey::from_bytes(&b).unwrap();
    assert!(*k1.as_bytes() == b);
    let k2 = PublicKey::try_from(&b[..]).unwrap();
    assert!(*k2.as_bytes() == b);
    let k3 = PublicKey::try_from(&b).unwrap();
    assert!(*k3.as_bytes() == b);
    assert!(k1 == k2 && k2 == k3);
}

/// C02: TryFrom<&[u8]> accepts exactly 32-byte slices the oracle accepts; other lengths are errors.
#[kani::proof]
#[kani::stub(curve25519_dalek::edwards::CompressedEdwardsY::decompress, vs::decompress_oracle)]
#[kani::stub(n0_error::backtrace_enabled, vstubs::backtrace_disabled)]
fn c02_key_try_from_slice() {
    let buf: [u8; 40] = kani::any();
    let len: usize = kani::any();
    kani::assume(len <= 40);
    let r = PublicKey::try_from(&buf[..len]);
    if len != 32 {
        assert!(r.is_err());
        assert!(vs::oracle_queries() == 0);
    } else {
        let mut b = [0u8; 32];
        b.copy_from_slice(&buf[..32]);
        assert!(r.is_ok() == (vs::oracle_answer(&b) == Some(true)));
        if let Ok(k) = r {
            assert!(*k.as_bytes() == b);
        }
    }
    kani::cover!(r.is_ok());
    kani::cover!(len == 32 && r.is_err());
    kani::cover!(len == 33);
}

/// C02: the 64-character path of FromStr is exactly lower-case hex of a valid point.
#[kani::proof]
#[kani::unwind(66)]
#[kani::stub(curve25519_dalek::edwards::CompressedEdwardsY::decompress, vs::decompress_oracle)]
#[kani::stub(n0_error::backtrace_enabled, vstubs::backtrace_disabled)]
fn c02_key_from_str_hex64() {
    let s: [u8; 64] = kani::any();
    let mut j = 0;
    while j < 64 {
        kani::assume(s[j] < 128);
        j += 1;
    }
    hex64_body(s);
}

/// Quick rung of the harness above: 10 symbolic characters (first 5, last 5), rest '3'.
#[kani::proof]
#[kani::unwind(66)]
#[kani::stub(curve25519_dalek::edwards::CompressedEdwardsY::decompress, vs::decompress_oracle)]
#[kani::stub(n0_error::backtrace_enabled, vstubs::backtrace_disabled)]
fn c02_key_from_str_hex64_window() {
    let mut s = [b'3'; 64];
    let a: [u8; 5] = kani::any();
    let b: [u8; 5] = kani::any();
    let mut j = 0;
    while j < 5 {
        kani::assume(a[j] < 128 && b[j] < 128);
        s[j] = a[j];
        s[59 + j] = b[j];
        j += 1;
    }
    hex64_body(s);
}

fn hex64_body(s: [u8; 64]) {
    let st = unsafe { std::str::from_utf8_unchecked(&s) };
    let r = PublicKey::from_str(st);
    let i: usize = kani::any();
    kani::assume(i < 32);
    match r {
        Ok(k) => {
            let hi = hexval(s[2 * i]);
            let lo = hexval(s[2 * i + 1]);
            assert!(hi.is_some() && lo.is_some());
            assert!(k.as_bytes()[i] == (hi.unwrap() << 4 | lo.unwrap()));
            assert!(vs::oracle_answer(k.as_bytes()) == Some(true));
        }
        Err(_) => {
            // an error means: some character is not lower-case hex, or the oracle said no
            let bad: usize = kani::any();
            kani::assume(bad < 64);
            let some_bad = hexval(s[bad]).is_none();
            // if every character is hex the oracle must have been asked and said no
            if vs::oracle_queries() == 0 {
                // decoding failed before the key check: there is a non-hex char somewhere;
                // (existential, checked through cover below) nothing to assert per position
                let _ = some_bad;
            } else {
                assert!(vs::oracle_queries() == 1);
            }
        }
    }
    kani::cover!(r.is_ok());
    kani::cover!(r.is_err() && vs::oracle_queries() == 1);
    kani::cover!(r.is_err() && vs::oracle_queries() == 0);
}

/// C02: an all-hex 64-char string never fails before the curve check (totality of the hex path).
#[kani::proof]
#[kani::unwind(66)]
#[kani::stub(curve25519_dalek::edwards::CompressedEdwardsY::decompress, vs::decompress_all_valid)]
#[kani::stub(n0_error::backtrace_enabled, vstubs::backtrace_disabled)]
fn c02_key_from_str_hex64_accepts_all_hex() {
    let s: [u8; 64] = kani::any();
    let mut j = 0;
    while j < 64 {
        kani::assume(hexval(s[j]).is_some());
        j += 1;
    }
    let st = unsafe { std::str::from_utf8_unchecked(&s) };
    let r = PublicKey::from_str(st);
    assert!(r.is_ok());
}

/// C02: strings whose length is neither 64 (hex) nor 52 (base32) are errors, never panics.
/// (For those lengths the content is only copied by to_ascii_uppercase, never inspected:
/// content concrete, length symbolic.)
#[kani::proof]
#[kani::unwind(82)]
#[kani::stub(curve25519_dalek::edwards::CompressedEdwardsY::decompress, vs::decompress_oracle)]
#[kani::stub(n0_error::backtrace_enabled, vstubs::backtrace_disabled)]
fn c02_key_from_str_other_lengths() {
    let s = [b'a'; 80];
    const LENS: [usize; 8] = [0, 1, 2, 51, 53, 63, 65, 66];
    let mut k = 0;
    while k < LENS.len() {
        let st = unsafe { std::str::from_utf8_unchecked(&s[..LENS[k]]) };
        let r = PublicKey::from_str(st);
        assert!(r.is_err());
        core::mem::forget(r);
        k += 1;
    }
    assert!(vs::oracle_queries() == 0);
}

/// C02: Signature bytes round-trip; TryFrom<&[u8]> accepts exactly 64-byte slices.
#[kani::proof]
#[kani::unwind(66)]
#[kani::stub(n0_error::backtrace_enabled, vstubs::backtrace_disabled)]
fn c02_signature_roundtrip() {
    let b: [u8; 64] = kani::any();
    let s = Signature::from_bytes(&b);
    let out = s.to_bytes();
    let i: usize = kani::any();
    kani::assume(i < 64);
    assert!(out[i] == b[i]);
    let buf: [u8; 70] = kani::any();
    let len: usize = kani::any();
    kani::assume(len <= 70);
    let r = Signature::try_from(&buf[..len]);
    assert!(r.is_ok() == (len == 64));
    if let Ok(s2) = r {
        assert!(s2.to_bytes()[i] == buf[i]);
    }
    kani::cover!(len == 64);
    kani::cover!(len == 63);
}


/// C02: base32 (52 chars, case-insensitive) path of FromStr: accepted only for valid points,
/// and the accepted key re-encodes to the (upper-cased) input. 8 symbolic chars, rest 'A'.
#[kani::proof]
#[kani::unwind(66)]
#[kani::stub(curve25519_dalek::edwards::CompressedEdwardsY::decompress, vs::decompress_oracle)]
#[kani::stub(n0_error::backtrace_enabled, vstubs::backtrace_disabled)]
fn c02_key_from_str_base32_window() {
    let mut s = [b'A'; 52];
    let a: [u8; 4] = kani::any();
    let b: [u8; 4] = kani::any();
    let mut j = 0;
    while j < 4 {
        kani::assume(a[j] < 128 && b[j] < 128);
        s[j] = a[j];
        s[48 + j] = b[j];
        j += 1;
    }
    let st = unsafe { std::str::from_utf8_unchecked(&s) };
    let r = PublicKey::from_str(st);
    if let Ok(k) = r {
        assert!(vs::oracle_answer(k.as_bytes()) == Some(true));
        // first symbolic char decides the top 5 bits of byte 0
        let c = s[0].to_ascii_uppercase();
        let v = match c {
            b'A'..=b'Z' => c - b'A',
            b'2'..=b'7' => c - b'2' + 26,
            _ => 255,
        };
        assert!(v < 32);
        assert!(k.as_bytes()[0] >> 3 == v);
        // trailing bits of the last character must be zero (canonical encoding)
        let l = s[51].to_ascii_uppercase();
        let lv = match l {
            b'A'..=b'Z' => l - b'A',
            b'2'..=b'7' => l - b'2' + 26,
            _ => 255,
        };
        assert!(lv < 32 && lv & 0x0f == 0);
    } else {
        assert!(vs::oracle_queries() <= 1);
    }
    kani::cover!(r.is_ok());
    kani::cover!(r.is_ok() && s[0] == b'b');
    kani::cover!(r.is_err() && vs::oracle_queries() == 0);
    kani::cover!(r.is_err() && vs::oracle_queries() == 1);
    core::mem::forget(r);
}

/// C02: z-base-32: from_z32(to_z32(k)) == k for every valid key.
#[kani::proof]
#[kani::unwind(66)]
#[kani::stub(curve25519_dalek::edwards::CompressedEdwardsY::decompress, vs::decompress_all_valid)]
#[kani::stub(n0_error::backtrace_enabled, vstubs::backtrace_disabled)]
fn c02_key_z32_roundtrip() {
    let k = vs::any_key();
    let z = k.to_z32();
    assert!(z.len() == 52);
    let r = PublicKey::from_z32(&z);
    match &r {
        Ok(k2) => {
            let i: usize = kani::any();
            kani::assume(i < 32);
            assert!(k2.as_bytes()[i] == k.as_bytes()[i]);
        }
        Err(_) => assert!(false, "z32 round trip failed"),
    }
    core::mem::forget(z);
    core::mem::forget(r);
}

/// Reachability witness for the oracle-stubbed harnesses.
#[kani::proof]
#[kani::stub(curve25519_dalek::edwards::CompressedEdwardsY::decompress, vs::decompress_oracle)]
#[kani::stub(n0_error::backtrace_enabled, vstubs::backtrace_disabled)]
fn c02_key_witness() {
    let bytes: [u8; 32] = kani::any();
    let r = PublicKey::from_bytes(&bytes);
    kani::assume(r.is_ok());
    assert!(false, "witness");
}

#[cfg(test)]
mod playback {
    use super::*;
    include!("/verif/.build/playback/iroh_base__key.rs");
}
