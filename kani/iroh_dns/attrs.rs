#![allow(unreachable_pub, dead_code, missing_docs, unused_imports, unused_variables, unused_mut, static_mut_refs, clippy::all)]
// Kani harnesses for iroh-dns/src/attrs.rs (C31 kernel: `key=value` TXT strings).
use super::*;
use iroh_base::verif_support as vs;
include!("/verif/kani/common.rs");

/// C31 kernel: a TXT string `user-data=<v>` parses to exactly the value <v>, for every 4-byte
/// ASCII value - including values that contain '=' themselves (the value is everything after
/// the *first* '=').
#[kani::proof]
#[kani::unwind(24)]
#[kani::stub(vs::curve25519_dalek::edwards::CompressedEdwardsY::decompress, vs::decompress_all_valid)]
#[kani::stub(n0_error::backtrace_enabled, vstubs::backtrace_disabled)]
fn c31_txt_value_is_everything_after_first_equals() {
    let tail: [u8; 4] = kani::any();
    let mut k = 0;
    while k < 4 {
        kani::assume(tail[k] >= 0x20 && tail[k] < 0x7f);
        k += 1;
    }
    let mut s = String::with_capacity(32);
    s.push_str("user-data=");
    s.push_str(unsafe { std::str::from_utf8_unchecked(&tail) });
    let id = vs::key_from([0u8; 32]);
    let r = TxtAttrs::<IrohAttr>::from_strings(id, std::iter::once(s));
    match &r {
        Ok(a) => {
            let vals = a.attrs().get(&IrohAttr::UserData);
            assert!(vals.is_some());
            let vals = vals.unwrap();
            assert!(vals.len() == 1);
            assert!(vals[0].len() == 4, "value truncated");
            let mut k = 0;
            while k < 4 {
                assert!(vals[0].as_bytes()[k] == tail[k]);
                k += 1;
            }
        }
        Err(_) => assert!(false, "a key=value string with a known key parses"),
    }
    kani::cover!(tail[1] == b'=');
    core::mem::forget(r);
}

/// C31 kernel: strings without '=' and strings with an unknown key are errors (never a
/// panic, never a silently dropped record); `relay=` / `addr=` keys keep their values too.
#[kani::proof]
#[kani::unwind(24)]
#[kani::stub(vs::curve25519_dalek::edwards::CompressedEdwardsY::decompress, vs::decompress_all_valid)]
#[kani::stub(n0_error::backtrace_enabled, vstubs::backtrace_disabled)]
fn c31_txt_malformed_and_other_keys() {
    let id = vs::key_from([0u8; 32]);
    let r = TxtAttrs::<IrohAttr>::from_strings(id, std::iter::once(String::from("user-data")));
    assert!(r.is_err());
    core::mem::forget(r);
    let r = TxtAttrs::<IrohAttr>::from_strings(id, std::iter::once(String::from("colour=red")));
    assert!(r.is_err());
    core::mem::forget(r);
    let r = TxtAttrs::<IrohAttr>::from_strings(id, std::iter::once(String::from("addr=x=y")));
    match &r {
        Ok(a) => {
            let v = a.attrs().get(&IrohAttr::Addr).unwrap();
            assert!(v.len() == 1 && v[0].as_bytes() == b"x=y");
            assert!(a.attrs().get(&IrohAttr::UserData).is_none());
        }
        Err(_) => assert!(false, "addr=... parses"),
    }
    core::mem::forget(r);
}

#[kani::proof]
#[kani::unwind(24)]
#[kani::stub(vs::curve25519_dalek::edwards::CompressedEdwardsY::decompress, vs::decompress_all_valid)]
#[kani::stub(n0_error::backtrace_enabled, vstubs::backtrace_disabled)]
fn c31_witness() {
    let id = vs::key_from([0u8; 32]);
    let r = TxtAttrs::<IrohAttr>::from_strings(id, std::iter::once(String::from("relay=r")));
    kani::assume(r.is_ok());
    core::mem::forget(r);
    assert!(false, "witness");
}

#[cfg(test)]
mod playback {
    use super::*;
    include!("/verif/.build/playback/iroh_dns__attrs.rs");
}
