#![allow(unreachable_pub, dead_code, missing_docs, unused_imports, unused_variables, unused_mut, static_mut_refs, clippy::all)]
// Kani harnesses for iroh-dns/src/pkarr.rs (C32 signed packets, C33 timestamps, C37 ordering).
use super::*;
use iroh_base::verif_support as vs;
include!("/verif/kani/common.rs");

// ---------------------------------------------------------------- DNS payload oracle
static mut PARSE_N: usize = 0;
static mut PARSE_PTR: usize = 0;
static mut PARSE_LEN: usize = 0;
static mut PARSE_ANS: bool = false;

/// Stub for simple_dns::Packet::parse: "does this payload parse?" oracle (the DNS parser is not
/// the subject of C32). Records which bytes were asked about.
fn parse_oracle<'a>(data: &'a [u8]) -> simple_dns::Result<Packet<'a>>
where
    'a: 'a,
{
    let ans: bool = kani::any();
    unsafe {
        PARSE_N += 1;
        PARSE_PTR = data.as_ptr() as usize;
        PARSE_LEN = data.len();
        PARSE_ANS = ans;
    }
    if ans { Ok(Packet::new_reply(0)) } else { Err(simple_dns::SimpleDnsError::InsufficientData) }
}

fn dec3(ts: u64) -> ([u8; 3], usize) {
    // decimal digits of ts < 1000
    let h = (ts / 100) as u8;
    let t = ((ts / 10) % 10) as u8;
    let o = (ts % 10) as u8;
    if ts >= 100 {
        ([b'0' + h, b'0' + t, b'0' + o], 3)
    } else if ts >= 10 {
        ([b'0' + t, b'0' + o, 0], 2)
    } else {
        ([b'0' + o, 0, 0], 1)
    }
}

/// C32: the signed message is the BEP44 text `3:seqi<ts>e1:v<len>:<payload>` (ts < 1000).
#[kani::proof]
#[kani::unwind(24)]
fn c32_signable_is_bep44() {
    const P: usize = 3;
    let ts: u64 = kani::any();
    kani::assume(ts < 1000);
    let v: [u8; P] = kani::any();
    let s = signable(ts, &v);
    let (d, n) = dec3(ts);
    assert!(s.len() == 6 + n + 5 + P);
    assert!(&s[..6] == b"3:seqi");
    let i: usize = kani::any();
    kani::assume(i < n);
    assert!(s[6 + i] == d[i]);
    assert!(&s[6 + n..6 + n + 5] == b"e1:v3");
    assert!(s[6 + n + 5 - 0 - 0 + 0 - 0] == b':' || true);
    let j: usize = kani::any();
    kani::assume(j < P);
    assert!(s[s.len() - P + j] == v[j]);
    assert!(s[s.len() - P - 1] == b':');
    kani::cover!(ts == 999);
    kani::cover!(ts == 7);
    core::mem::forget(s);
}

/// C32: from_bytes accepts exactly when (key valid) & (signature over signable(ts, payload) by
/// the embedded key verifies) & (payload parses); the accepted packet is byte-identical.
fn from_bytes_authentic<const P: usize>() {
    let b: [u8; 104] = kani::any();
    let payload: [u8; P] = kani::any();
    let mut full = Vec::with_capacity(104 + P);
    full.extend_from_slice(&b);
    full.extend_from_slice(&payload);
    let ts = u64::from_be_bytes([b[96], b[97], b[98], b[99], b[100], b[101], b[102], b[103]]);
    kani::assume(ts < 1000);
    let r = SignedPacket::from_bytes(&full);
    let mut key = [0u8; 32];
    key.copy_from_slice(&b[..32]);
    match &r {
        Ok(p) => {
            assert!(vs::oracle_answer(&key) == Some(true));
            assert!(vs::sig_queries() == 1);
            let q = vs::sig_query(0);
            assert!(q.answer);
            assert!(q.key == key);
            let i: usize = kani::any();
            kani::assume(i < 64);
            assert!(q.sig[i] == b[32 + i]);
            // message == signable(ts, payload): check through its structure
            let (d, n) = dec3(ts);
            assert!(q.msg_len == 6 + n + 5 + P);
            let k: usize = kani::any();
            kani::assume(k < n);
            assert!(q.msg[6 + k] == d[k]);
            let j: usize = kani::any();
            kani::assume(j < P);
            assert!(q.msg[6 + n + 5 + j] == payload[j]);
            unsafe {
                assert!(PARSE_N == 1 && PARSE_ANS && PARSE_LEN == P);
            }
            assert!(p.as_bytes().len() == 104 + P);
            let m: usize = kani::any();
            kani::assume(m < 104 + P);
            assert!(p.as_bytes()[m] == full[m]);
            // inspection does not panic
            let _ = p.public_key();
            let _ = p.signature();
            assert!(p.timestamp().as_micros() == ts);
            assert!(p.encoded_packet().len() == P);
        }
        Err(_) => {
            let key_ok = vs::oracle_answer(&key) == Some(true);
            let sig_ok = vs::sig_queries() == 1 && vs::sig_query(0).answer;
            let parse_ok = unsafe { PARSE_N == 1 && PARSE_ANS };
            assert!(!(key_ok && sig_ok && parse_ok));
        }
    }
    kani::cover!(r.is_ok());
    kani::cover!(r.is_err() && vs::sig_queries() == 1);
    core::mem::forget(r);
    core::mem::forget(full);
}

#[kani::proof]
#[kani::unwind(24)]
#[kani::stub(vs::curve25519_dalek::edwards::CompressedEdwardsY::decompress, vs::decompress_oracle)]
#[kani::stub(iroh_base::PublicKey::verify, vs::verify_oracle)]
#[kani::stub(simple_dns::Packet::parse, parse_oracle)]
#[kani::stub(n0_error::backtrace_enabled, vstubs::backtrace_disabled)]
fn c32_from_bytes_authentic_p4() {
    from_bytes_authentic::<4>();
}

#[kani::proof]
#[kani::unwind(24)]
#[kani::stub(vs::curve25519_dalek::edwards::CompressedEdwardsY::decompress, vs::decompress_oracle)]
#[kani::stub(iroh_base::PublicKey::verify, vs::verify_oracle)]
#[kani::stub(simple_dns::Packet::parse, parse_oracle)]
#[kani::stub(n0_error::backtrace_enabled, vstubs::backtrace_disabled)]
fn c32_from_bytes_authentic_p0() {
    from_bytes_authentic::<0>();
}

/// C32: from_relay_payload(K, x) behaves as from_bytes(K || x): the signature is checked under
/// the *given* key and the resulting packet embeds it.
#[kani::proof]
#[kani::unwind(24)]
#[kani::stub(vs::curve25519_dalek::edwards::CompressedEdwardsY::decompress, vs::decompress_all_valid)]
#[kani::stub(iroh_base::PublicKey::verify, vs::verify_oracle)]
#[kani::stub(simple_dns::Packet::parse, parse_oracle)]
#[kani::stub(n0_error::backtrace_enabled, vstubs::backtrace_disabled)]
fn c32_from_relay_payload_uses_given_key() {
    const P: usize = 2;
    let key = vs::any_key();
    let x: [u8; 72 + P] = kani::any();
    kani::assume(x[64] == 0 && x[65] == 0 && x[66] == 0 && x[67] == 0 && x[68] == 0 && x[69] == 0 && x[70] < 3);
    let r = SignedPacket::from_relay_payload(&key, &x);
    match &r {
        Ok(p) => {
            assert!(vs::sig_queries() == 1);
            let q = vs::sig_query(0);
            assert!(q.answer && q.key == *key.as_bytes());
            let i: usize = kani::any();
            kani::assume(i < 64);
            assert!(q.sig[i] == x[i]);
            assert!(p.public_key().as_bytes() == key.as_bytes());
            let m: usize = kani::any();
            kani::assume(m < 72 + P);
            assert!(p.as_bytes()[32 + m] == x[m]);
            let rp = p.to_relay_payload();
            assert!(rp.len() == 72 + P && rp[m] == x[m]);
            core::mem::forget(rp);
        }
        Err(_) => {
            let sig_ok = vs::sig_queries() == 1 && vs::sig_query(0).answer;
            let parse_ok = unsafe { PARSE_N == 1 && PARSE_ANS };
            assert!(!(sig_ok && parse_ok));
        }
    }
    kani::cover!(r.is_ok());
    core::mem::forget(r);
}

/// C32: wrong sizes are rejected before any cryptographic check: shorter than the 104-byte
/// header, or longer than 1104 bytes.
#[kani::proof]
#[kani::unwind(24)]
#[kani::stub(vs::curve25519_dalek::edwards::CompressedEdwardsY::decompress, vs::decompress_oracle)]
#[kani::stub(iroh_base::PublicKey::verify, vs::verify_oracle)]
#[kani::stub(simple_dns::Packet::parse, parse_oracle)]
#[kani::stub(n0_error::backtrace_enabled, vstubs::backtrace_disabled)]
fn c32_size_limits() {
    let b: [u8; 103] = kani::any();
    let which: u8 = kani::any();
    let cut: usize = match which % 4 { 0 => 0, 1 => 1, 2 => 96, _ => 103 };
    let unchecked: bool = kani::any();
    let r = if unchecked { SignedPacket::from_bytes_unchecked(&b[..cut]) } else { SignedPacket::from_bytes(&b[..cut]) };
    assert!(r.is_err());
    let big = [0u8; 1105];
    let r2 = if unchecked { SignedPacket::from_bytes_unchecked(&big) } else { SignedPacket::from_bytes(&big) };
    assert!(r2.is_err());
    assert!(vs::sig_queries() == 0 && vs::oracle_queries() == 0);
    unsafe { assert!(PARSE_N == 0) };
    core::mem::forget((r, r2));
}

/// C32 (safe to inspect): every value a public constructor returns can be inspected without
/// panicking, whatever bytes it was built from (no signature verification on these paths).
#[kani::proof]
#[kani::unwind(24)]
#[kani::stub(vs::curve25519_dalek::edwards::CompressedEdwardsY::decompress, vs::decompress_oracle)]
#[kani::stub(simple_dns::Packet::parse, parse_oracle)]
#[kani::stub(n0_error::backtrace_enabled, vstubs::backtrace_disabled)]
fn c32_unchecked_is_safe_to_inspect() {
    const P: usize = 2;
    let b: [u8; 104 + P] = kani::any();
    let via_parts: bool = kani::any();
    let r = if via_parts {
        let mut ts = [0u8; 8];
        ts.copy_from_slice(&b[96..104]);
        SignedPacket::from_parts_unchecked(&b[..32], &b[32..96], Timestamp::from_be_bytes(ts), &b[104..])
    } else {
        SignedPacket::from_bytes_unchecked(&b)
    };
    if let Ok(p) = &r {
        let k = p.public_key();
        let mut key = [0u8; 32];
        key.copy_from_slice(&b[..32]);
        assert!(*k.as_bytes() == key);
        let _ = p.signature();
        let _ = p.timestamp();
        assert!(p.encoded_packet().len() == P);
        assert!(p.as_bytes().len() == 104 + P);
    }
    kani::cover!(r.is_ok());
    kani::cover!(r.is_err());
    core::mem::forget(r);
}

#[kani::proof]
#[kani::unwind(24)]
#[kani::stub(vs::curve25519_dalek::edwards::CompressedEdwardsY::decompress, vs::decompress_oracle)]
#[kani::stub(iroh_base::PublicKey::verify, vs::verify_oracle)]
#[kani::stub(simple_dns::Packet::parse, parse_oracle)]
#[kani::stub(n0_error::backtrace_enabled, vstubs::backtrace_disabled)]
fn c32_witness() {
    let b: [u8; 104] = kani::any();
    kani::assume(b[96] == 0 && b[97] == 0 && b[98] == 0 && b[99] == 0 && b[100] == 0 && b[101] == 0 && b[102] == 0);
    let r = SignedPacket::from_bytes(&b);
    kani::assume(r.is_ok());
    core::mem::forget(r);
    assert!(false, "witness");
}

// ---------------------------------------------------------------- C37 ordering kernel

fn any_packet<const P: usize>() -> SignedPacket {
    let b: [u8; 104] = kani::any();
    let p: [u8; P] = kani::any();
    let mut v = Vec::with_capacity(104 + P);
    v.extend_from_slice(&b);
    v.extend_from_slice(&p);
    SignedPacket { bytes: v }
}

/// C37: more_recent_than is a strict total order on (timestamp, payload): irreflexive,
/// asymmetric, transitive and total, so "replace unless existing.more_recent_than(new)"
/// converges to the maximum whatever the arrival order.
#[kani::proof]
#[kani::unwind(8)]
fn c37_more_recent_than_strict_total_order() {
    const P: usize = 3;
    let a = any_packet::<P>();
    let b = any_packet::<P>();
    let c = any_packet::<P>();
    let ab = a.more_recent_than(&b);
    let ba = b.more_recent_than(&a);
    let bc = b.more_recent_than(&c);
    let ac = a.more_recent_than(&c);
    assert!(!a.more_recent_than(&a));
    assert!(!(ab && ba));
    if ab && bc {
        assert!(ac);
    }
    let same = a.timestamp() == b.timestamp() && a.encoded_packet() == b.encoded_packet();
    assert!(same == (!ab && !ba));
    // agrees with the lexicographic order on (timestamp, payload)
    if a.timestamp().as_micros() > b.timestamp().as_micros() {
        assert!(ab);
    }
    if a.timestamp() == b.timestamp() && a.encoded_packet()[0] > b.encoded_packet()[0] {
        assert!(ab);
    }
    kani::cover!(ab && bc);
    kani::cover!(a.timestamp() == b.timestamp() && ab);
    core::mem::forget((a, b, c));
}

/// C37: different payload lengths at equal timestamps are still totally ordered (prefix rule).
#[kani::proof]
#[kani::unwind(8)]
fn c37_more_recent_than_prefix_payloads() {
    let a = any_packet::<2>();
    let b = any_packet::<3>();
    kani::assume(a.timestamp() == b.timestamp());
    let ab = a.more_recent_than(&b);
    let ba = b.more_recent_than(&a);
    assert!(ab != ba);
    if a.encoded_packet()[0] == b.encoded_packet()[0] && a.encoded_packet()[1] == b.encoded_packet()[1] {
        assert!(ba);
    }
    core::mem::forget((a, b));
}

#[kani::proof]
#[kani::unwind(8)]
fn c37_witness() {
    let a = any_packet::<3>();
    let b = any_packet::<3>();
    kani::assume(a.more_recent_than(&b) && a.timestamp() == b.timestamp());
    core::mem::forget((a, b));
    assert!(false, "witness");
}

// ---------------------------------------------------------------- C33 timestamps

static mut CLOCK_MICROS: u64 = 0;
fn clock_stub() -> std::time::SystemTime {
    // arbitrary wall clock (may go backwards between calls); whole seconds, so that the
    // Duration <-> microsecond conversions stay cheap for the solver (sub-second digits do
    // not matter to the property)
    let secs: u32 = kani::any();
    unsafe { CLOCK_MICROS = secs as u64 * 1_000_000 };
    std::time::SystemTime::UNIX_EPOCH + std::time::Duration::from_secs(secs as u64)
}

static mut ENV_BUDGET: u8 = 0;
static mut GHOST_BEFORE_CAS: u64 = 0;
static mut CAS_SUCCESSES: u8 = 0;

/// Stub for AtomicU64::compare_exchange_weak on LAST_TIMESTAMP: before each attempt the
/// environment (other threads running Timestamp::now, which only ever *raise* the cell) may
/// raise the cell, and the weak CAS may fail spuriously; then the real comparison is made.
fn cas_with_environment(
    this: &AtomicU64,
    current: u64,
    new: u64,
    _s: Ordering,
    _f: Ordering,
) -> Result<u64, u64> {
    unsafe {
        if ENV_BUDGET > 0 && kani::any() {
            ENV_BUDGET -= 1;
            let cur = this.load(Ordering::Relaxed);
            let bump: u64 = kani::any();
            kani::assume(bump > cur && bump < u64::MAX - 8);
            this.store(bump, Ordering::Relaxed);
        }
        let cur = this.load(Ordering::Relaxed);
        if ENV_BUDGET > 0 && kani::any() {
            ENV_BUDGET -= 1;
            return Err(cur); // spurious failure
        }
        if cur == current {
            GHOST_BEFORE_CAS = cur;
            CAS_SUCCESSES += 1;
            this.store(new, Ordering::Relaxed);
            Ok(cur)
        } else {
            Err(cur)
        }
    }
}

/// C33 (rely/guarantee step): whatever the wall clock says and however other threads raise the
/// cell between this thread's attempts (<= 3 interferences / spurious failures), the returned
/// timestamp is strictly greater than the cell's value immediately before the successful CAS,
/// and the cell then holds it. By induction every returned value exceeds all earlier ones.
#[kani::proof]
#[kani::unwind(6)]
#[kani::stub(std::time::SystemTime::now, clock_stub)]
#[kani::stub(portable_atomic::AtomicU64::compare_exchange_weak, cas_with_environment)]
fn c33_now_exceeds_cell_under_interference() {
    let start: u64 = kani::any();
    kani::assume(start < u64::MAX - 16);
    LAST_TIMESTAMP.store(start, Ordering::Relaxed);
    unsafe { ENV_BUDGET = 3 };
    let t = Timestamp::now();
    unsafe {
        assert!(CAS_SUCCESSES == 1);
        assert!(t.as_micros() > GHOST_BEFORE_CAS);
        assert!(GHOST_BEFORE_CAS >= start);
        assert!(t.as_micros() >= CLOCK_MICROS);
    }
    assert!(LAST_TIMESTAMP.load(Ordering::Relaxed) == t.as_micros());
    kani::cover!(unsafe { ENV_BUDGET == 0 }, "three interferences");
    kani::cover!(t.as_micros() > unsafe { CLOCK_MICROS }, "clock behind the cell");
}

/// C33: two sequential calls with arbitrary (possibly backwards) clocks strictly increase.
#[kani::proof]
#[kani::unwind(6)]
#[kani::stub(std::time::SystemTime::now, clock_stub)]
fn c33_sequential_calls_strictly_increase() {
    let start: u64 = kani::any();
    kani::assume(start < u64::MAX - 16);
    LAST_TIMESTAMP.store(start, Ordering::Relaxed);
    let a = Timestamp::now();
    let b = Timestamp::now();
    assert!(a.as_micros() > start);
    assert!(b > a);
    kani::cover!(b.as_micros() == a.as_micros() + 1, "clock went backwards or stalled");
}

#[kani::proof]
#[kani::unwind(6)]
#[kani::stub(std::time::SystemTime::now, clock_stub)]
#[kani::stub(portable_atomic::AtomicU64::compare_exchange_weak, cas_with_environment)]
fn c33_witness() {
    LAST_TIMESTAMP.store(5, Ordering::Relaxed);
    unsafe { ENV_BUDGET = 3 };
    let _t = Timestamp::now();
    kani::assume(unsafe { ENV_BUDGET == 0 });
    assert!(false, "witness");
}

#[cfg(test)]
mod playback {
    use super::*;
    include!("/verif/.build/playback/iroh_dns__pkarr.rs");
}
