#![allow(unreachable_pub, dead_code, missing_docs, unused_imports, unused_variables, unused_mut, static_mut_refs, clippy::all)]
// Kani harnesses for iroh-dns/src/pkarr.rs (C32 signed packets, C33 timestamps, C37 ordering).
extern crate alloc;
use super::*;
use iroh_base::verif_support as vs;
include!("/verif/kani/common.rs");

// ---------------------------------------------------------------- DNS payload oracle

/// Stub for `signable` (its `format!` of the BEP44 prefix is far beyond CBMC's reach): an
/// injective stand-in `<8-byte BE timestamp> || payload`, so that the harnesses still decide
/// that exactly this packet's timestamp *and* payload are what the signature is checked over.
/// Not decided: the literal text `3:seqi<ts>e1:v<len>:`.
fn signable_model(timestamp: u64, v: &[u8]) -> Vec<u8> {
    let mut s = Vec::with_capacity(8 + v.len());
    s.extend_from_slice(&timestamp.to_be_bytes());
    s.extend_from_slice(v);
    s
}

/// Stubs for simple_dns::Packet::parse: "does this payload parse?" oracle (the DNS parser is
/// not the subject of C32). The oracle's answer is case-split into two stubs / two harnesses
/// (a symbolic Ok/Err merge of `Result<Packet>` makes CBMC explore Packet's drop glue on
/// garbage and does not finish). Both record that (and on how many bytes) they were asked.
fn parse_yes<'a>(_data: &'a [u8]) -> simple_dns::Result<Packet<'a>>
where
    'a: 'a,
{
    Ok(Packet::new_reply(0))
}
fn parse_no<'a>(_data: &'a [u8]) -> simple_dns::Result<Packet<'a>>
where
    'a: 'a,
{
    Err(simple_dns::SimpleDnsError::InsufficientData)
}

/// C32: from_bytes accepts exactly when (key valid) & (signature over signable(ts, payload) by
/// the embedded key verifies) & (payload parses); the accepted packet is byte-identical.
fn from_bytes_authentic<const P: usize, const PARSES: bool>() {
    let b: [u8; 104] = kani::any();
    let payload: [u8; P] = kani::any();
    let mut full = Vec::with_capacity(104 + P);
    full.extend_from_slice(&b);
    full.extend_from_slice(&payload);
    let ts = u64::from_be_bytes([b[96], b[97], b[98], b[99], b[100], b[101], b[102], b[103]]);
    let r = SignedPacket::from_bytes(&full);
    let mut key = [0u8; 32];
    key.copy_from_slice(&b[..32]);
    match &r {
        Ok(p) => {
            assert!(vs::oracle_answer(&key) == Some(true));
            assert!(vs::sig_queries() == 1);
            let q = vs::sig_query(0);
            assert!(q.answer);
            assert!(q.key == key);
            let i: usize = kani::any();
            kani::assume(i < 64);
            assert!(q.sig[i] == b[32 + i]);
            // message == signable(ts, payload), with signable modelled as ts_be || payload
            assert!(q.msg_len == 8 + P);
            let tsb = ts.to_be_bytes();
            let mut j = 0;
            while j < 8 {
                assert!(q.msg[j] == tsb[j]);
                j += 1;
            }
            let mut j = 0;
            while j < P {
                assert!(q.msg[8 + j] == payload[j]);
                j += 1;
            }
            assert!(PARSES, "a payload that does not parse is never accepted");
            assert!(p.as_bytes().len() == 104 + P);
            let m: usize = kani::any();
            kani::assume(m < 104 + P);
            assert!(p.as_bytes()[m] == full[m]);
            // inspection does not panic
            let _ = p.public_key();
            let _ = p.signature();
            assert!(p.timestamp().as_micros() == ts);
            assert!(p.encoded_packet().len() == P);
        }
        Err(_) => {
            let key_ok = vs::oracle_answer(&key) == Some(true);
            let sig_ok = vs::sig_queries() == 1 && vs::sig_query(0).answer;
            assert!(!(key_ok && sig_ok && PARSES));
        }
    }
    kani::cover!(r.is_ok() || !PARSES);
    kani::cover!(r.is_err() && vs::sig_queries() == 1);
    core::mem::forget(r);
    core::mem::forget(full);
}

#[kani::proof]
#[kani::unwind(70)]
#[kani::stub(vs::curve25519_dalek::edwards::CompressedEdwardsY::decompress, vs::decompress_oracle)]
#[kani::stub(iroh_base::PublicKey::verify, vs::verify_oracle)]
#[kani::stub(simple_dns::Packet::parse, parse_yes)]
#[kani::stub(signable, signable_model)]
#[kani::stub(n0_error::backtrace_enabled, vstubs::backtrace_disabled)]
fn c32_from_bytes_authentic_p4_parses() {
    from_bytes_authentic::<4, true>();
}

#[kani::proof]
#[kani::unwind(70)]
#[kani::stub(vs::curve25519_dalek::edwards::CompressedEdwardsY::decompress, vs::decompress_oracle)]
#[kani::stub(iroh_base::PublicKey::verify, vs::verify_oracle)]
#[kani::stub(simple_dns::Packet::parse, parse_no)]
#[kani::stub(signable, signable_model)]
#[kani::stub(n0_error::backtrace_enabled, vstubs::backtrace_disabled)]
fn c32_from_bytes_authentic_p4_parse_fails() {
    from_bytes_authentic::<4, false>();
}

#[kani::proof]
#[kani::unwind(70)]
#[kani::stub(vs::curve25519_dalek::edwards::CompressedEdwardsY::decompress, vs::decompress_oracle)]
#[kani::stub(iroh_base::PublicKey::verify, vs::verify_oracle)]
#[kani::stub(simple_dns::Packet::parse, parse_yes)]
#[kani::stub(signable, signable_model)]
#[kani::stub(n0_error::backtrace_enabled, vstubs::backtrace_disabled)]
fn c32_from_bytes_authentic_p0_parses() {
    from_bytes_authentic::<0, true>();
}

#[kani::proof]
#[kani::unwind(70)]
#[kani::stub(vs::curve25519_dalek::edwards::CompressedEdwardsY::decompress, vs::decompress_oracle)]
#[kani::stub(iroh_base::PublicKey::verify, vs::verify_oracle)]
#[kani::stub(simple_dns::Packet::parse, parse_no)]
#[kani::stub(signable, signable_model)]
#[kani::stub(n0_error::backtrace_enabled, vstubs::backtrace_disabled)]
fn c32_from_bytes_authentic_p0_parse_fails() {
    from_bytes_authentic::<0, false>();
}

/// C32 (long packets): for packets around the 1000-byte DNS limit the signature is still checked
/// over the *whole* payload (every byte after the header), and the accepted packet is the input.
fn from_bytes_covers_whole_payload<const P: usize>() {
    let b: [u8; 104] = kani::any();
    let last: u8 = kani::any();
    let mut full = vec![0u8; 104 + P];
    full[..104].copy_from_slice(&b);
    full[104 + P - 1] = last;
    let r = SignedPacket::from_bytes(&full);
    if let Ok(p) = &r {
        assert!(vs::sig_queries() == 1);
        let q = vs::sig_query(0);
        assert!(q.answer);
        // signable is modelled as ts_be || payload: the signed message covers all P payload bytes
        assert!(q.msg_len == 8 + P);
        assert!(p.as_bytes().len() == 104 + P);
        assert!(p.encoded_packet().len() == P);
        assert!(p.as_bytes()[104 + P - 1] == last);
    }
    kani::cover!(r.is_ok());
    kani::cover!(r.is_err());
    core::mem::forget(r);
    core::mem::forget(full);
}

macro_rules! c32_long {
    ($name:ident, $p:expr) => {
        #[kani::proof]
        #[kani::unwind(70)]
        #[kani::stub(vs::curve25519_dalek::edwards::CompressedEdwardsY::decompress, vs::decompress_all_valid)]
        #[kani::stub(iroh_base::PublicKey::verify, vs::verify_oracle)]
        #[kani::stub(simple_dns::Packet::parse, parse_yes)]
        #[kani::stub(signable, signable_model)]
        #[kani::stub(n0_error::backtrace_enabled, vstubs::backtrace_disabled)]
        fn $name() {
            from_bytes_covers_whole_payload::<$p>();
        }
    };
}
c32_long!(c32_from_bytes_whole_payload_signed_len1000, 896);
c32_long!(c32_from_bytes_whole_payload_signed_len1001, 897);
c32_long!(c32_from_bytes_whole_payload_signed_len1104, 1000);

/// C32: from_relay_payload(K, x) behaves as from_bytes(K || x): the signature is checked under
/// the *given* key and the resulting packet embeds it.
#[kani::proof]
#[kani::unwind(70)]
#[kani::stub(vs::curve25519_dalek::edwards::CompressedEdwardsY::decompress, vs::decompress_all_valid)]
#[kani::stub(iroh_base::PublicKey::verify, vs::verify_oracle)]
#[kani::stub(simple_dns::Packet::parse, parse_yes)]
#[kani::stub(signable, signable_model)]
#[kani::stub(n0_error::backtrace_enabled, vstubs::backtrace_disabled)]
fn c32_from_relay_payload_uses_given_key_parses() {
    from_relay_payload_uses_given_key::<true>();
}

#[kani::proof]
#[kani::unwind(70)]
#[kani::stub(vs::curve25519_dalek::edwards::CompressedEdwardsY::decompress, vs::decompress_all_valid)]
#[kani::stub(iroh_base::PublicKey::verify, vs::verify_oracle)]
#[kani::stub(simple_dns::Packet::parse, parse_no)]
#[kani::stub(signable, signable_model)]
#[kani::stub(n0_error::backtrace_enabled, vstubs::backtrace_disabled)]
fn c32_from_relay_payload_uses_given_key_parse_fails() {
    from_relay_payload_uses_given_key::<false>();
}

fn from_relay_payload_uses_given_key<const PARSES: bool>() {
    const P: usize = 2;
    let key = vs::any_key();
    let x: [u8; 72 + P] = kani::any();
    let r = SignedPacket::from_relay_payload(&key, &x);
    match &r {
        Ok(p) => {
            assert!(vs::sig_queries() == 1);
            let q = vs::sig_query(0);
            assert!(q.answer && q.key == *key.as_bytes());
            let i: usize = kani::any();
            kani::assume(i < 64);
            assert!(q.sig[i] == x[i]);
            // timestamp and payload of *this* relay payload are what is verified
            assert!(q.msg_len == 8 + P);
            let mut j = 0;
            while j < 8 + P {
                assert!(q.msg[j] == x[64 + j]);
                j += 1;
            }
            assert!(p.public_key().as_bytes() == key.as_bytes());
            let m: usize = kani::any();
            kani::assume(m < 72 + P);
            assert!(p.as_bytes()[32 + m] == x[m]);
            let rp = p.to_relay_payload();
            assert!(rp.len() == 72 + P && rp[m] == x[m]);
            core::mem::forget(rp);
        }
        Err(_) => {
            let sig_ok = vs::sig_queries() == 1 && vs::sig_query(0).answer;
            assert!(!(sig_ok && PARSES));
        }
    }
    kani::cover!(r.is_ok() || !PARSES);
    core::mem::forget(r);
}

/// C32: wrong sizes are rejected before any cryptographic check: shorter than the 104-byte
/// header, or longer than 1104 bytes.
#[kani::proof]
#[kani::unwind(70)]
#[kani::stub(vs::curve25519_dalek::edwards::CompressedEdwardsY::decompress, vs::decompress_oracle)]
#[kani::stub(iroh_base::PublicKey::verify, vs::verify_oracle)]
#[kani::stub(simple_dns::Packet::parse, parse_yes)]
#[kani::stub(signable, signable_model)]
#[kani::stub(n0_error::backtrace_enabled, vstubs::backtrace_disabled)]
fn c32_size_limits() {
    let b: [u8; 103] = kani::any();
    let which: u8 = kani::any();
    let cut: usize = match which % 4 { 0 => 0, 1 => 1, 2 => 96, _ => 103 };
    let unchecked: bool = kani::any();
    let r = if unchecked { SignedPacket::from_bytes_unchecked(&b[..cut]) } else { SignedPacket::from_bytes(&b[..cut]) };
    assert!(r.is_err());
    let big = [0u8; 1105];
    let r2 = if unchecked { SignedPacket::from_bytes_unchecked(&big) } else { SignedPacket::from_bytes(&big) };
    assert!(r2.is_err());
    assert!(vs::sig_queries() == 0 && vs::oracle_queries() == 0);
    core::mem::forget((r, r2));
}

/// C32 (safe to inspect): every value a public constructor returns can be inspected without
/// panicking, whatever bytes it was built from (no signature verification on these paths).
#[kani::proof]
#[kani::unwind(70)]
#[kani::stub(vs::curve25519_dalek::edwards::CompressedEdwardsY::decompress, vs::decompress_oracle)]
#[kani::stub(simple_dns::Packet::parse, parse_yes)]
#[kani::stub(signable, signable_model)]
#[kani::stub(n0_error::backtrace_enabled, vstubs::backtrace_disabled)]
fn c32_unchecked_is_safe_to_inspect() {
    const P: usize = 2;
    let b: [u8; 104 + P] = kani::any();
    let via_parts: bool = kani::any();
    let r = if via_parts {
        let mut ts = [0u8; 8];
        ts.copy_from_slice(&b[96..104]);
        SignedPacket::from_parts_unchecked(&b[..32], &b[32..96], Timestamp::from_be_bytes(ts), &b[104..])
    } else {
        SignedPacket::from_bytes_unchecked(&b)
    };
    if let Ok(p) = &r {
        let k = p.public_key();
        let mut key = [0u8; 32];
        key.copy_from_slice(&b[..32]);
        assert!(*k.as_bytes() == key);
        let _ = p.signature();
        let _ = p.timestamp();
        assert!(p.encoded_packet().len() == P);
        assert!(p.as_bytes().len() == 104 + P);
    }
    kani::cover!(r.is_ok());
    kani::cover!(r.is_err());
    core::mem::forget(r);
}

/// C32 (safe to inspect): from_parts_unchecked with parts of *any* lengths (key 0/31/32/33,
/// signature 0/63/64/65 bytes, 12-byte payload, all contents symbolic): whatever it returns
/// Ok for can be inspected without panicking (the assembled packet is at least a full header).
fn parts_any_lengths<const KL: usize, const SL: usize>() {
    // key part: zeros (a valid curve point when 32 bytes long, also natively, so that solver
    // counterexamples replay against the real curve code); everything else symbolic
    let k = [0u8; KL];
    let sg: [u8; SL] = kani::any();
    let payload: [u8; 12] = kani::any();
    let r = SignedPacket::from_parts_unchecked(&k, &sg, Timestamp::from_micros(kani::any()), &payload);
    if let Ok(p) = &r {
        assert!(p.as_bytes().len() >= 104);
        let _ = p.public_key();
        let _ = p.signature();
        let _ = p.timestamp();
        let _ = p.encoded_packet();
        let rp = p.to_relay_payload();
        core::mem::forget(rp);
    }
    core::mem::forget(r);
}

macro_rules! c32parts {
    ($name:ident, $($kl:expr, $sl:expr);*) => {
        #[kani::proof]
        #[kani::unwind(70)]
        #[kani::stub(vs::curve25519_dalek::edwards::CompressedEdwardsY::decompress, vs::decompress_all_valid)]
        #[kani::stub(simple_dns::Packet::parse, parse_yes)]
        #[kani::stub(n0_error::backtrace_enabled, vstubs::backtrace_disabled)]
        fn $name() {
            $( parts_any_lengths::<$kl, $sl>(); )*
        }
    };
}
c32parts!(c32_parts_unchecked_k0_s0, 0, 0);
c32parts!(c32_parts_unchecked_k32_s0, 32, 0);
c32parts!(c32_parts_unchecked_k32_s63, 32, 63);
c32parts!(c32_parts_unchecked_k31_s64, 31, 64);
c32parts!(c32_parts_unchecked_k32_s52, 32, 52);
c32parts!(c32_parts_unchecked_exact_and_long_parts, 32, 64; 33, 64; 32, 65; 31, 65; 33, 63);

#[kani::proof]
#[kani::unwind(70)]
#[kani::stub(vs::curve25519_dalek::edwards::CompressedEdwardsY::decompress, vs::decompress_oracle)]
#[kani::stub(iroh_base::PublicKey::verify, vs::verify_oracle)]
#[kani::stub(simple_dns::Packet::parse, parse_yes)]
#[kani::stub(signable, signable_model)]
#[kani::stub(n0_error::backtrace_enabled, vstubs::backtrace_disabled)]
fn c32_witness() {
    let b: [u8; 104] = kani::any();
    let r = SignedPacket::from_bytes(&b);
    kani::assume(r.is_ok());
    core::mem::forget(r);
    assert!(false, "witness");
}

// ---------------------------------------------------------------- C37 ordering kernel

fn any_packet<const P: usize>() -> SignedPacket {
    let b: [u8; 104] = kani::any();
    let p: [u8; P] = kani::any();
    let mut v = Vec::with_capacity(104 + P);
    v.extend_from_slice(&b);
    v.extend_from_slice(&p);
    SignedPacket { bytes: v }
}

/// C37: more_recent_than is a strict total order on (timestamp, payload): irreflexive,
/// asymmetric, transitive and total, so "replace unless existing.more_recent_than(new)"
/// converges to the maximum whatever the arrival order.
#[kani::proof]
#[kani::unwind(8)]
fn c37_more_recent_than_strict_total_order() {
    const P: usize = 3;
    let a = any_packet::<P>();
    let b = any_packet::<P>();
    let c = any_packet::<P>();
    let ab = a.more_recent_than(&b);
    let ba = b.more_recent_than(&a);
    let bc = b.more_recent_than(&c);
    let ac = a.more_recent_than(&c);
    assert!(!a.more_recent_than(&a));
    assert!(!(ab && ba));
    if ab && bc {
        assert!(ac);
    }
    let same = a.timestamp() == b.timestamp() && a.encoded_packet() == b.encoded_packet();
    assert!(same == (!ab && !ba));
    // agrees with the lexicographic order on (timestamp, payload)
    if a.timestamp().as_micros() > b.timestamp().as_micros() {
        assert!(ab);
    }
    if a.timestamp() == b.timestamp() && a.encoded_packet()[0] > b.encoded_packet()[0] {
        assert!(ab);
    }
    kani::cover!(ab && bc);
    kani::cover!(a.timestamp() == b.timestamp() && ab);
    core::mem::forget((a, b, c));
}

/// C37: different payload lengths at equal timestamps are still totally ordered (prefix rule).
#[kani::proof]
#[kani::unwind(8)]
fn c37_more_recent_than_prefix_payloads() {
    let a = any_packet::<2>();
    let b = any_packet::<3>();
    kani::assume(a.timestamp() == b.timestamp());
    let ab = a.more_recent_than(&b);
    let ba = b.more_recent_than(&a);
    assert!(ab != ba);
    if a.encoded_packet()[0] == b.encoded_packet()[0] && a.encoded_packet()[1] == b.encoded_packet()[1] {
        assert!(ba);
    }
    core::mem::forget((a, b));
}

#[kani::proof]
#[kani::unwind(8)]
fn c37_witness() {
    let a = any_packet::<3>();
    let b = any_packet::<3>();
    kani::assume(a.more_recent_than(&b) && a.timestamp() == b.timestamp());
    core::mem::forget((a, b));
    assert!(false, "witness");
}

// ---------------------------------------------------------------- C33 timestamps

static mut CLOCK_MICROS: u64 = 0;
fn clock_stub() -> std::time::SystemTime {
    // arbitrary wall clock (may go backwards between calls); whole seconds, so that the
    // Duration <-> microsecond conversions stay cheap for the solver (sub-second digits do
    // not matter to the property)
    let secs: u32 = kani::any();
    unsafe { CLOCK_MICROS = secs as u64 * 1_000_000 };
    std::time::SystemTime::UNIX_EPOCH + std::time::Duration::from_secs(secs as u64)
}

static mut ENV_BUDGET: u8 = 0;
static mut GHOST_BEFORE_CAS: u64 = 0;
static mut CAS_SUCCESSES: u8 = 0;

/// Stub for AtomicU64::compare_exchange_weak on LAST_TIMESTAMP: before each attempt the
/// environment (other threads running Timestamp::now, which only ever *raise* the cell) may
/// raise the cell, and the weak CAS may fail spuriously; then the real comparison is made.
fn cas_with_environment(
    this: &AtomicU64,
    current: u64,
    new: u64,
    _s: Ordering,
    _f: Ordering,
) -> Result<u64, u64> {
    unsafe {
        if ENV_BUDGET > 0 && kani::any() {
            ENV_BUDGET -= 1;
            let cur = this.load(Ordering::Relaxed);
            let bump: u64 = kani::any();
            kani::assume(bump > cur && bump < u64::MAX - 8);
            this.store(bump, Ordering::Relaxed);
        }
        let cur = this.load(Ordering::Relaxed);
        if ENV_BUDGET > 0 && kani::any() {
            ENV_BUDGET -= 1;
            return Err(cur); // spurious failure
        }
        if cur == current {
            GHOST_BEFORE_CAS = cur;
            CAS_SUCCESSES += 1;
            this.store(new, Ordering::Relaxed);
            Ok(cur)
        } else {
            Err(cur)
        }
    }
}

/// C33 (rely/guarantee step): whatever the wall clock says and however other threads raise the
/// cell between this thread's attempts (<= 3 interferences / spurious failures), the returned
/// timestamp is strictly greater than the cell's value immediately before the successful CAS,
/// and the cell then holds it. By induction every returned value exceeds all earlier ones.
#[kani::proof]
#[kani::unwind(6)]
#[kani::stub(std::time::SystemTime::now, clock_stub)]
#[kani::stub(portable_atomic::AtomicU64::compare_exchange_weak, cas_with_environment)]
fn c33_now_exceeds_cell_under_interference() {
    let start: u64 = kani::any();
    kani::assume(start < u64::MAX - 16);
    LAST_TIMESTAMP.store(start, Ordering::Relaxed);
    unsafe { ENV_BUDGET = 3 };
    let t = Timestamp::now();
    unsafe {
        assert!(CAS_SUCCESSES == 1);
        assert!(t.as_micros() > GHOST_BEFORE_CAS);
        assert!(GHOST_BEFORE_CAS >= start);
        assert!(t.as_micros() >= CLOCK_MICROS);
    }
    assert!(LAST_TIMESTAMP.load(Ordering::Relaxed) == t.as_micros());
    kani::cover!(unsafe { ENV_BUDGET == 0 }, "three interferences");
    kani::cover!(t.as_micros() > unsafe { CLOCK_MICROS }, "clock behind the cell");
}

/// C33: two sequential calls with arbitrary (possibly backwards) clocks strictly increase.
#[kani::proof]
#[kani::unwind(6)]
#[kani::stub(std::time::SystemTime::now, clock_stub)]
fn c33_sequential_calls_strictly_increase() {
    let start: u64 = kani::any();
    kani::assume(start < u64::MAX - 16);
    LAST_TIMESTAMP.store(start, Ordering::Relaxed);
    let a = Timestamp::now();
    let b = Timestamp::now();
    assert!(a.as_micros() > start);
    assert!(b > a);
    kani::cover!(b.as_micros() == a.as_micros() + 1, "clock went backwards or stalled");
}

#[kani::proof]
#[kani::unwind(6)]
#[kani::stub(std::time::SystemTime::now, clock_stub)]
#[kani::stub(portable_atomic::AtomicU64::compare_exchange_weak, cas_with_environment)]
fn c33_witness() {
    LAST_TIMESTAMP.store(5, Ordering::Relaxed);
    unsafe { ENV_BUDGET = 3 };
    let _t = Timestamp::now();
    kani::assume(unsafe { ENV_BUDGET == 0 });
    assert!(false, "witness");
}

#[cfg(test)]
mod playback {
    use super::*;
    include!("/verif/.build/playback/iroh_dns__pkarr.rs");
}

