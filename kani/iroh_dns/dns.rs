#![allow(unreachable_pub, dead_code, missing_docs, unused_imports, unused_variables, unused_mut, static_mut_refs, clippy::all)]
// Kani harnesses for iroh-dns/src/dns.rs (C34 jitter kernel).
use super::*;
include!("/verif/kani/common.rs");

/// C34 (a): add_jitter never panics (in particular never divides by zero) for every u64 delay
/// and every rng output; 0 -> 0.
#[kani::proof]
#[kani::stub(rand::random, vstubs::any_random)]
fn c34_add_jitter_total() {
    let delay: u64 = kani::any();
    let d = add_jitter(&delay);
    if delay == 0 {
        assert!(d == Duration::ZERO);
    }
    kani::cover!(delay == 1, "delay 1 reachable to the end");
    kani::cover!(delay == 2, "delay 2 reachable to the end");
    kani::cover!(delay == u64::MAX, "delay max reachable to the end");
}

/// C34 (b): result within +-20% of the delay (integer rounding), delay < 2^16.
#[kani::proof]
#[kani::stub(rand::random, vstubs::any_random)]
fn c34_add_jitter_bounded_16() {
    let delay: u64 = kani::any();
    kani::assume(delay >= 3 && delay < (1 << 16));
    let ms = add_jitter(&delay).as_millis() as u64;
    assert!(ms >= delay - delay / 5 - 1);
    assert!(ms <= delay + delay / 5 + 1);
    kani::cover!(ms < delay, "jitter can shorten");
    kani::cover!(ms > delay, "jitter can lengthen");
}

/// C34 (c): delays too small to jitter are within +-20% trivially (returned as is or +-1).
#[kani::proof]
#[kani::stub(rand::random, vstubs::any_random)]
fn c34_add_jitter_small() {
    let delay: u64 = kani::any();
    kani::assume(delay == 1 || delay == 2);
    let ms = add_jitter(&delay).as_millis() as u64;
    assert!(ms <= delay + 1 && ms + 1 >= delay);
    kani::cover!(delay == 1);
    kani::cover!(delay == 2);
}

/// Vacuity witness twin: must FAIL.
#[kani::proof]
#[kani::stub(rand::random, vstubs::any_random)]
fn c34_add_jitter_witness() {
    let delay: u64 = kani::any();
    kani::assume(delay >= 3);
    let _ = add_jitter(&delay);
    assert!(false, "witness");
}

#[cfg(test)]
mod playback {
    use super::*;
    include!("/verif/.build/playback/iroh_dns__dns.rs");
}
