#![allow(unreachable_pub, dead_code, missing_docs, unused_imports, unused_variables, unused_mut, static_mut_refs, clippy::all)]
// Kani harnesses for iroh-relay/src/server.rs (C12 auth token extraction, C13 captive portal).
extern crate alloc;
use super::*;
use iroh_base::verif_support as vs;
include!("/verif/kani/common.rs");

// ------------------------------------------------------------------ C13

/// C13 kernel: the challenge alphabet is exactly [A-Za-z0-9._-], for every char.
#[kani::proof]
#[kani::unwind(4)]
fn c13_challenge_alphabet() {
    let c: char = kani::any();
    let want = c.is_ascii() && matches!(c as u8, b'a'..=b'z' | b'A'..=b'Z' | b'0'..=b'9' | b'.' | b'-' | b'_');
    assert!(is_challenge_char(c) == want);
    kani::cover!(want);
    kani::cover!(!want && c.is_ascii());
}

#[kani::proof]
#[kani::unwind(4)]
fn c13_alphabet_witness() {
    let c: char = kani::any();
    kani::assume(is_challenge_char(c));
    assert!(false, "witness");
}

fn challenge_request<const L: usize>(val: &[u8; L]) -> Option<Request<http_body_util::Empty<bytes::Bytes>>> {
    let hv = HeaderValue::from_bytes(&val[..]).ok()?;
    let mut req = Request::new(http_body_util::Empty::<bytes::Bytes>::new());
    req.headers_mut().insert(http::HeaderName::from_static("x-iroh-challenge"), hv);
    Some(req)
}

/// C13: the captive-portal handler answers 204 always, and echoes a response header exactly
/// when the challenge is 1..=63 bytes of [A-Za-z0-9._-]. Challenge length fixed per harness,
/// every byte symbolic (all values a header value admits). The echoed text itself goes through
/// `format!` (stubbed: placeholder), so only presence/absence of the header is decided.
fn captive_portal_echo<const L: usize>() {
    let val: [u8; L] = kani::any();
    let Some(req) = challenge_request(&val) else { return };
    let resp = serve_no_content_handler(req, Response::builder());
    let mut all_ok = L >= 1 && L <= 63;
    let mut k = 0;
    while k < L {
        all_ok &= matches!(val[k], b'a'..=b'z' | b'A'..=b'Z' | b'0'..=b'9' | b'.' | b'-' | b'_');
        k += 1;
    }
    match &resp {
        Ok(r) => {
            assert!(r.status() == StatusCode::NO_CONTENT);
            assert!(r.headers().contains_key("x-iroh-response") == all_ok);
        }
        Err(_) => assert!(false, "the handler never fails"),
    }
    kani::cover!(all_ok);
    if L > 0 {
        kani::cover!(!all_ok);
    }
    core::mem::forget(resp);
}

macro_rules! c13h {
    ($name:ident, $l:expr) => {
        #[kani::proof]
        #[kani::unwind(70)]
        #[kani::stub(alloc::fmt::format, vstubs::format_placeholder)]
        #[kani::stub(n0_error::backtrace_enabled, vstubs::backtrace_disabled)]
        fn $name() {
            captive_portal_echo::<$l>();
        }
    };
}
c13h!(c13_echo_len0, 0);
c13h!(c13_echo_len1, 1);
c13h!(c13_echo_len5, 5);
c13h!(c13_echo_len63, 63);
c13h!(c13_echo_len64, 64);

/// C13: no challenge header at all => 204 without response header.
#[kani::proof]
#[kani::unwind(8)]
#[kani::stub(alloc::fmt::format, vstubs::format_placeholder)]
fn c13_no_challenge_no_echo() {
    let req = Request::new(http_body_util::Empty::<bytes::Bytes>::new());
    let resp = serve_no_content_handler(req, Response::builder());
    match &resp {
        Ok(r) => assert!(r.status() == StatusCode::NO_CONTENT && !r.headers().contains_key("x-iroh-response")),
        Err(_) => assert!(false, "the handler never fails"),
    }
    core::mem::forget(resp);
}

#[kani::proof]
#[kani::unwind(70)]
#[kani::stub(alloc::fmt::format, vstubs::format_placeholder)]
fn c13_witness() {
    let val: [u8; 5] = kani::any();
    let Some(req) = challenge_request(&val) else { return };
    let resp = serve_no_content_handler(req, Response::builder());
    kani::assume(matches!(&resp, Ok(r) if r.headers().contains_key("x-iroh-response")));
    core::mem::forget(resp);
    assert!(false, "witness");
}

// ------------------------------------------------------------------ C12

fn request_with<const A: usize, const B: usize, const Q: usize>(
    h1: Option<&[u8; A]>,
    h2: Option<&[u8; B]>,
    query: &[u8; Q],
) -> Option<ClientRequest> {
    let mut req = Request::new(());
    if let Some(v) = h1 {
        req.headers_mut().append(AUTHORIZATION, HeaderValue::from_bytes(&v[..]).ok()?);
    }
    if let Some(v) = h2 {
        req.headers_mut().append(AUTHORIZATION, HeaderValue::from_bytes(&v[..]).ok()?);
    }
    // uri "/relay?<query>"
    let mut u = Vec::with_capacity(8 + Q);
    u.extend_from_slice(b"/relay?");
    u.extend_from_slice(&query[..]);
    let uri = http::Uri::try_from(u).ok()?;
    *req.uri_mut() = uri;
    let (parts, _) = req.into_parts();
    Some(ClientRequest::new(vs::key_from([0u8; 32]), ProtocolVersion::V2, parts))
}

/// Reference for one Authorization value: Some(Some(token)) bearer token, Some(None) skip,
/// None = malformed (non-text) value => the search ends with no token.
fn classify(v: &[u8]) -> Option<Option<&[u8]>> {
    let mut k = 0;
    while k < v.len() {
        let b = v[k];
        if !(b == b'\t' || (b >= 0x20 && b < 0x7f)) {
            return None;
        }
        k += 1;
    }
    let mut sp = None;
    let mut k = 0;
    while k < v.len() {
        if sp.is_none() && v[k] == b' ' {
            sp = Some(k);
        }
        k += 1;
    }
    match sp {
        Some(i) if i == 6 && v[..6].eq_ignore_ascii_case(b"bearer") => Some(Some(&v[i + 1..])),
        _ => Some(None),
    }
}

/// C12 (header rules): with two Authorization headers of 9 and 8 symbolic bytes (all byte
/// values a header admits) and no token in the query: the token is the rest of the first
/// value whose scheme is `bearer` (any case) up to the first space; a non-text value ends the
/// search with None even if a later header is a valid bearer; other schemes are skipped.
#[kani::proof]
#[kani::unwind(16)]
#[kani::stub(vs::curve25519_dalek::edwards::CompressedEdwardsY::decompress, vs::decompress_all_valid)]
#[kani::stub(n0_error::backtrace_enabled, vstubs::backtrace_disabled)]
fn c12_two_authorization_headers() {
    let a: [u8; 9] = kani::any();
    let b: [u8; 8] = kani::any();
    let q = *b"x=1";
    let Some(req) = request_with(Some(&a), Some(&b), &q) else { return };
    let got = req.auth_token();
    let want: Option<&[u8]> = match classify(&a) {
        None => None,
        Some(Some(t)) => Some(t),
        Some(None) => match classify(&b) {
            None => None,
            Some(Some(t)) => Some(t),
            Some(None) => None,
        },
    };
    match (&got, want) {
        (Some(g), Some(w)) => assert!(g.as_bytes() == w),
        (None, None) => {}
        _ => assert!(false, "auth token differs from the documented rule"),
    }
    kani::cover!(got.is_some() && classify(&a) == Some(None), "second header supplies the token");
    kani::cover!(got.is_none() && classify(&a).is_none() && matches!(classify(&b), Some(Some(_))), "malformed first header hides a valid second");
    kani::cover!(got.is_some() && matches!(classify(&a), Some(Some(_))));
    core::mem::forget(got);
    core::mem::forget(req);
}

#[kani::proof]
#[kani::unwind(16)]
#[kani::stub(vs::curve25519_dalek::edwards::CompressedEdwardsY::decompress, vs::decompress_all_valid)]
#[kani::stub(n0_error::backtrace_enabled, vstubs::backtrace_disabled)]
fn c12_witness() {
    let a: [u8; 9] = kani::any();
    let b: [u8; 8] = kani::any();
    let q = *b"x=1";
    let Some(req) = request_with(Some(&a), Some(&b), &q) else { return };
    let got = req.auth_token();
    kani::assume(got.is_some());
    core::mem::forget(got);
    core::mem::forget(req);
    assert!(false, "witness");
}

#[cfg(test)]
mod playback {
    use super::*;
    include!("/verif/.build/playback/iroh_relay__server.rs");
}
