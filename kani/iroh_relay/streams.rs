#![allow(unreachable_pub, dead_code, missing_docs, unused_imports, unused_variables, unused_mut, static_mut_refs, clippy::all)]
// Kani harnesses for iroh-relay/src/server/streams.rs (C05 sink-side checks, C09 token bucket).
use super::*;
use crate::protos::relay::{Datagrams, verif_kani::ecn_bits};
use bytes::Bytes;
use iroh_base::verif_support as vs;
include!("/verif/kani/common.rs");
include!("/verif/kani/common_clock.rs");

// ------------------------------------------------------------------ mock sink
pub(crate) struct MockSink {
    pub sent: usize,
    pub last_len: usize,
}
impl Sink<Bytes> for MockSink {
    type Error = StreamError;
    fn poll_ready(self: Pin<&mut Self>, _cx: &mut Context<'_>) -> Poll<Result<(), Self::Error>> {
        Poll::Ready(Ok(()))
    }
    fn start_send(mut self: Pin<&mut Self>, item: Bytes) -> Result<(), Self::Error> {
        self.sent += 1;
        self.last_len = item.len();
        core::mem::forget(item);
        Ok(())
    }
    fn poll_flush(self: Pin<&mut Self>, _cx: &mut Context<'_>) -> Poll<Result<(), Self::Error>> {
        Poll::Ready(Ok(()))
    }
    fn poll_close(self: Pin<&mut Self>, _cx: &mut Context<'_>) -> Poll<Result<(), Self::Error>> {
        Poll::Ready(Ok(()))
    }
}

/// Stub for RelayToClientMsg::to_bytes where the encoder is not the subject.
fn to_bytes_stub(_m: &RelayToClientMsg) -> bytes::BytesMut {
    bytes::BytesMut::new()
}

static ZEROS: [u8; MAX_PACKET_SIZE + 8] = [0u8; MAX_PACKET_SIZE + 8];

/// Datagrams with a *symbolic length* up to MAX_PACKET_SIZE+8 over a static zero buffer
/// (C05 depends on lengths only; contents are copied verbatim).
fn any_len_datagrams(batch: bool) -> Datagrams {
    let len: usize = kani::any();
    kani::assume(len <= MAX_PACKET_SIZE + 8);
    let mut b = Bytes::from_static(&ZEROS[..]);
    b.truncate(len);
    let ss = if batch { Some(std::num::NonZeroU16::new(1200).unwrap()) } else { None };
    Datagrams { ecn: None, segment_size: ss, contents: b }
}

/// C05: whatever `Datagrams::is_forwardable` lets through to a destination's queue, that
/// destination's sink (`RelayedStream::start_send`) accepts - for every payload length from
/// empty to beyond the frame limit, single datagrams and batches. (A sink error ends the
/// *receiving* client's actor: server/client.rs run_inner, `RunError::PacketSend`.)
fn forwardable_is_sendable(batch: bool) {
    let d = any_len_datagrams(batch);
    let len = d.contents.len();
    let fwd = d.is_forwardable();
    // the filter is exactly: non-empty and fits the frame limit once re-framed for the receiver
    let framed = 1 + 32 + 1 + if batch { 2 } else { 0 } + len;
    assert!(fwd == (len > 0 && framed <= MAX_PACKET_SIZE));
    let mut s = RelayedStream::new(MockSink { sent: 0, last_len: 0 }, KeyCache::new(0));
    let msg = RelayToClientMsg::Datagrams { remote_endpoint_id: vs::key_from([0u8; 32]), datagrams: d };
    assert!(msg.encoded_len() == framed);
    // the real sink-side checks on the symbolic length (encoder stubbed: it allocates by length)
    let r = Pin::new(&mut s).start_send(msg);
    assert!(r.is_ok() == fwd);
    assert!(s.inner.sent == if fwd { 1 } else { 0 });
    core::mem::forget(r);
    kani::cover!(fwd && framed == MAX_PACKET_SIZE, "largest forwardable");
    kani::cover!(!fwd && len > 0, "too large to forward");
    kani::cover!(!fwd && len == 0, "empty is not forwardable");
    core::mem::forget(s);
}

#[kani::proof]
#[kani::unwind(4)]
#[kani::stub(vs::curve25519_dalek::edwards::CompressedEdwardsY::decompress, vs::decompress_all_valid)]
#[kani::stub(n0_error::backtrace_enabled, vstubs::backtrace_disabled)]
#[kani::stub(crate::protos::relay::RelayToClientMsg::to_bytes, to_bytes_stub)]
fn c05_forwardable_iff_sink_accepts_single() {
    forwardable_is_sendable(false);
}

#[kani::proof]
#[kani::unwind(4)]
#[kani::stub(vs::curve25519_dalek::edwards::CompressedEdwardsY::decompress, vs::decompress_all_valid)]
#[kani::stub(n0_error::backtrace_enabled, vstubs::backtrace_disabled)]
#[kani::stub(crate::protos::relay::RelayToClientMsg::to_bytes, to_bytes_stub)]
fn c05_forwardable_iff_sink_accepts_batch() {
    forwardable_is_sendable(true);
}

#[kani::proof]
#[kani::unwind(4)]
#[kani::stub(vs::curve25519_dalek::edwards::CompressedEdwardsY::decompress, vs::decompress_all_valid)]
#[kani::stub(n0_error::backtrace_enabled, vstubs::backtrace_disabled)]
fn c05_witness() {
    let d = any_len_datagrams(true);
    kani::assume(d.is_forwardable() && d.contents.len() > 65000);
    core::mem::forget(d);
    assert!(false, "witness");
}

// ------------------------------------------------------------------ C09 token bucket
// Relay path: buckets are built by Bucket::from_config (rate: NonZeroU32 bytes/s, burst:
// optional NonZeroU32, default rate/10; refill period fixed at 100 ms).

fn any_cfg() -> ClientRateLimit {
    let rate: std::num::NonZeroU32 = kani::any();
    let burst: Option<std::num::NonZeroU32> = kani::any();
    let mut c = ClientRateLimit::new(rate);
    c.max_burst_bytes = burst;
    c
}

/// C09: from_config never panics; it yields a *full* bucket with burst default rate/10, or
/// rejects (rate < 10 B/s refills less than one token per period, or a default burst of 0).
fn from_config_total_and_full(rate_limit: u32) {
    let cfg = any_cfg();
    kani::assume(cfg.bytes_per_second.get() <= rate_limit);
    let start: u64 = kani::any();
    kani::assume(start < (1 << 20));
    cstubs::set(start);
    let r = Bucket::from_config(Some(cfg));
    let rate = cfg.bytes_per_second.get() as i64;
    let burst = cfg.max_burst_bytes.map_or(rate / 10, |b| b.get() as i64);
    match &r {
        Ok(Some(b)) => {
            assert!(b.max == burst && b.fill == burst);
            assert!(b.refill == rate / 10 && b.refill >= 1);
            assert!(b.refill_period == time::Duration::from_millis(100));
            assert!(b.last_fill == cstubs::now());
        }
        Ok(None) => assert!(false, "a configured limit never yields no bucket"),
        Err(_) => assert!(rate / 10 == 0 || burst == 0),
    }
    assert!(matches!(Bucket::from_config(None), Ok(None)));
    kani::cover!(r.is_ok());
    kani::cover!(r.is_err());
    core::mem::forget(r);
}

#[kani::proof]
#[kani::unwind(4)]
#[kani::stub(tokio::time::Instant::now, cstubs::now)]
#[kani::stub(n0_error::backtrace_enabled, vstubs::backtrace_disabled)]
fn c09_from_config_total_and_full_16bit() {
    from_config_total_and_full(1 << 16);
}

#[kani::proof]
#[kani::unwind(4)]
#[kani::stub(tokio::time::Instant::now, cstubs::now)]
#[kani::stub(n0_error::backtrace_enabled, vstubs::backtrace_disabled)]
fn c09_from_config_total_and_full_32bit() {
    from_config_total_and_full(u32::MAX);
}

/// A bucket in an arbitrary reachable state of the relay path (representation invariant).
fn any_bucket(bits: u32) -> (Bucket, u64) {
    let refill: i64 = kani::any();
    let max: i64 = kani::any();
    let fill: i64 = kani::any();
    let lim = 1i64 << bits;
    kani::assume(refill >= 1 && refill <= lim);
    kani::assume(max >= 1 && max <= lim);
    kani::assume(fill <= max && fill >= -4 * lim);
    let last_ms: u64 = kani::any();
    kani::assume(last_ms <= (1 << 20));
    (
        Bucket { fill, max, last_fill: cstubs::at(last_ms), refill_period: time::Duration::from_millis(100), refill },
        last_ms,
    )
}

/// C09 (one inductive step from any reachable state, relational form): consume(n) after an
/// arbitrary time advance
///  * never refills before a full period has elapsed (then fill' == fill - n exactly and the
///    refill clock does not move),
///  * never refills by more than (elapsed periods) x refill and never above max,
///  * admits iff tokens remain,
///  * when throttling, returns a deadline at least one period after the (advanced) refill
///    clock, and the refill clock never runs ahead of `now`.
/// The ghost inequality  admitted + fill <= max + refill * periods  is preserved, which bounds
/// what a client can ever get through by burst + accrued refill (+ the one chunk that drives
/// the bucket negative).
fn consume_step(bits: u32) {
    let (mut b, last_ms) = any_bucket(bits);
    let (fill0, max, refill, last0) = (b.fill, b.max, b.refill, b.last_fill);
    let delta: u64 = kani::any();
    kani::assume(delta <= (1u64 << bits));
    let now = last_ms + delta;
    cstubs::set(now);
    let n: usize = kani::any();
    kani::assume(n <= (1usize << bits));
    let r = b.consume(n);
    let n = n as i64;
    assert!(b.max == max && b.refill == refill);
    assert!(b.fill <= max - n);
    assert!(b.fill >= fill0 - n);
    if delta < 100 {
        assert!(b.fill == fill0 - n);
        assert!(b.last_fill == last0);
    } else {
        // refill clock advanced, by at most the elapsed time
        assert!(b.last_fill > last0);
    }
    assert!(b.last_fill <= cstubs::now());
    assert!(cstubs::now() < b.last_fill + time::Duration::from_millis(100));
    // no more than elapsed-periods x refill is ever added
    let periods = (delta / 100) as i64;
    assert!(b.fill <= fill0 + periods * refill - n);
    // and, unless capped by max, exactly that much is added
    assert!(b.fill == fill0 + periods * refill - n || b.fill == max - n);
    match r {
        Ok(()) => assert!(b.fill > 0),
        Err(deadline) => {
            assert!(b.fill <= 0);
            assert!(deadline >= b.last_fill + time::Duration::from_millis(100));
        }
    }
    kani::cover!(r.is_err());
    kani::cover!(r.is_ok() && periods > 0 && b.fill == max - n);
}

#[kani::proof]
#[kani::unwind(4)]
#[kani::stub(tokio::time::Instant::now, cstubs::now)]
fn c09_consume_step_8bit() {
    consume_step(8);
}

#[kani::proof]
#[kani::unwind(4)]
#[kani::stub(tokio::time::Instant::now, cstubs::now)]
fn c09_consume_step_12bit() {
    consume_step(12);
}

/// C09: when throttled, the returned deadline is exactly the first period boundary at which
/// the bucket holds tokens again: resumes no later than that, and not before.
fn throttle_deadline_exact(bits: u32) {
    let (mut b, last_ms) = any_bucket(bits);
    let refill = b.refill;
    cstubs::set(last_ms); // no refill in this call: isolates the deadline computation
    let n: usize = kani::any();
    kani::assume(n <= (1usize << bits));
    let r = b.consume(n);
    if let Err(deadline) = r {
        let k: i64 = kani::any(); // the number of periods the implementation chose
        kani::assume(k >= 1 && k <= (8i64 << bits));
        kani::assume(deadline == b.last_fill + time::Duration::from_millis(100) * (k as u32));
        // after k periods the fill is positive, after k-1 it is not
        assert!(b.fill + k * refill > 0);
        assert!(b.fill + (k - 1) * refill <= 0);
    }
    kani::cover!(r.is_err());
}

#[kani::proof]
#[kani::unwind(4)]
#[kani::stub(tokio::time::Instant::now, cstubs::now)]
fn c09_throttle_deadline_exact_6bit() {
    throttle_deadline_exact(6);
}

/// C09: no byte count and no elapsed time makes a relay-path bucket panic (overflow checks on),
/// from any reachable state with full-range parameters (rate up to u32::MAX).
#[kani::proof]
#[kani::unwind(4)]
#[kani::stub(tokio::time::Instant::now, cstubs::now)]
fn c09_consume_never_panics() {
    let refill: i64 = kani::any();
    let max: i64 = kani::any();
    let fill: i64 = kani::any();
    kani::assume(refill >= 1 && refill <= (u32::MAX as i64) / 10);
    kani::assume(max >= 1 && max <= u32::MAX as i64);
    kani::assume(fill <= max); // fill can saturate down to i64::MIN after repeated huge consumes
    let last_ms: u64 = kani::any();
    kani::assume(last_ms <= (1 << 40));
    let mut b = Bucket { fill, max, last_fill: cstubs::at(last_ms), refill_period: time::Duration::from_millis(100), refill };
    let now: u64 = kani::any();
    kani::assume(now <= (1 << 41));
    cstubs::set(now);
    let n: usize = kani::any();
    let r = b.consume(n);
    assert!(b.fill <= b.max);
    if r.is_ok() {
        assert!(b.fill > 0);
    }
    kani::cover!(n == usize::MAX && r.is_err());
    kani::cover!(now < last_ms, "clock behind last_fill");
}

/// C09: the public constructor with *any* i64 burst / rate and any refill period of whole
/// milliseconds (the embedder-facing API), followed by one consume after an arbitrary time
/// advance: never panics (overflow checks on), and a rejected configuration is an error.
#[kani::proof]
#[kani::unwind(4)]
#[kani::stub(tokio::time::Instant::now, cstubs::now)]
#[kani::stub(n0_error::backtrace_enabled, vstubs::backtrace_disabled)]
fn c09_public_new_then_consume_never_panics() {
    let max: i64 = kani::any();
    let rate: i64 = kani::any();
    let period_ms: u32 = kani::any();
    cstubs::set(0);
    let r = Bucket::new(max, rate, time::Duration::from_millis(period_ms as u64));
    match r {
        Ok(mut b) => {
            assert!(max > 0 && rate > 0 && period_ms > 0 && b.refill > 0);
            let now: u64 = kani::any();
            kani::assume(now <= (1 << 41));
            cstubs::set(now);
            let n: usize = kani::any();
            let res = b.consume(n);
            assert!(b.fill <= b.max);
            if res.is_ok() {
                assert!(b.fill > 0);
            }
        }
        Err(e) => {
            core::mem::forget(e);
        }
    }
}

#[kani::proof]
#[kani::unwind(4)]
#[kani::stub(tokio::time::Instant::now, cstubs::now)]
fn c09_witness() {
    let (mut b, last_ms) = any_bucket(8);
    cstubs::set(last_ms + 250);
    let r = b.consume(3);
    kani::assume(r.is_err());
    assert!(false, "witness");
}

#[cfg(test)]
mod playback {
    use super::*;
    include!("/verif/.build/playback/iroh_relay__streams.rs");
}
