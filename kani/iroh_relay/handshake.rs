#![allow(unreachable_pub, dead_code, missing_docs, unused_imports, unused_variables, unused_mut, static_mut_refs, clippy::all)]
// Kani harnesses for iroh-relay/src/protos/handshake.rs (C03 handshake, C07 admission segment).
use super::*;
use iroh_base::verif_support as vs;
use std::{pin::Pin, task::{Context, Poll, Waker}};
include!("/verif/kani/common.rs");
include!("/verif/kani/common_tracing.rs");

// ------------------------------------------------------------------ mock transport
/// Always-ready mock of the relay's websocket: yields <= 2 client frames, records what the
/// server writes, fails sends/flushes on demand, exports arbitrary keying material that is a
/// *function of the context* (recorded), as TLS exporters are.
pub(crate) struct MockIo {
    pub incoming: [Option<Bytes>; 2],
    pub next_in: usize,
    pub sent_n: usize,
    pub sent_tag: [u8; 3],
    pub sent_len: [usize; 3],
    pub sent_first16: [[u8; 16]; 3],
    pub fail_send_at: usize,  // index of the send that fails (usize::MAX: none)
    pub fail_flush_at: usize, // index of the flush that fails
    pub flush_n: usize,
    pub km: Option<[u8; 32]>,
    pub km_ctx: core::cell::Cell<[u8; 32]>,
    pub km_calls: core::cell::Cell<usize>,
}

#[derive(Debug)]
pub(crate) struct MockErr;
impl std::fmt::Display for MockErr {
    fn fmt(&self, _f: &mut std::fmt::Formatter<'_>) -> std::fmt::Result {
        Ok(())
    }
}
impl std::error::Error for MockErr {}

impl MockIo {
    pub fn new() -> Self {
        MockIo {
            incoming: [None, None],
            next_in: 0,
            sent_n: 0,
            sent_tag: [255; 3],
            sent_len: [0; 3],
            sent_first16: [[0; 16]; 3],
            fail_send_at: usize::MAX,
            fail_flush_at: usize::MAX,
            flush_n: 0,
            km: None,
            km_ctx: core::cell::Cell::new([0; 32]),
            km_calls: core::cell::Cell::new(0),
        }
    }
}

impl n0_future::Stream for MockIo {
    type Item = Result<Bytes, crate::protos::streams::StreamError>;
    fn poll_next(mut self: Pin<&mut Self>, _cx: &mut Context<'_>) -> Poll<Option<Self::Item>> {
        let i = self.next_in;
        if i >= 2 {
            return Poll::Ready(None);
        }
        self.next_in += 1;
        match self.incoming[i].take() {
            Some(b) => Poll::Ready(Some(Ok(b))),
            None => Poll::Ready(None),
        }
    }
}

impl n0_future::Sink<Bytes> for MockIo {
    type Error = crate::protos::streams::StreamError;
    fn poll_ready(self: Pin<&mut Self>, _cx: &mut Context<'_>) -> Poll<Result<(), Self::Error>> {
        Poll::Ready(Ok(()))
    }
    fn start_send(mut self: Pin<&mut Self>, item: Bytes) -> Result<(), Self::Error> {
        let n = self.sent_n;
        if n == self.fail_send_at {
            core::mem::forget(item);
            return Err(n0_error::AnyError::from_std(MockErr));
        }
        if n < 3 {
            self.sent_tag[n] = if item.is_empty() { 254 } else { item[0] };
            self.sent_len[n] = item.len();
        }
        self.sent_n += 1;
        core::mem::forget(item);
        Ok(())
    }
    fn poll_flush(mut self: Pin<&mut Self>, _cx: &mut Context<'_>) -> Poll<Result<(), Self::Error>> {
        let n = self.flush_n;
        self.flush_n += 1;
        if n == self.fail_flush_at {
            return Poll::Ready(Err(n0_error::AnyError::from_std(MockErr)));
        }
        Poll::Ready(Ok(()))
    }
    fn poll_close(self: Pin<&mut Self>, _cx: &mut Context<'_>) -> Poll<Result<(), Self::Error>> {
        Poll::Ready(Ok(()))
    }
}

impl ExportKeyingMaterial for MockIo {
    fn export_keying_material<T: AsMut<[u8]>>(&self, mut output: T, label: &[u8], context: Option<&[u8]>) -> Option<T> {
        self.km_calls.set(self.km_calls.get() + 1);
        assert!(label == DOMAIN_SEP_TLS_EXPORT_LABEL, "exporter label");
        let mut ctx = [0u8; 32];
        match context {
            Some(c) if c.len() == 32 => ctx.copy_from_slice(c),
            _ => assert!(false, "exporter context must be the 32-byte endpoint id"),
        }
        self.km_ctx.set(ctx);
        let km = self.km?;
        let out = output.as_mut();
        assert!(out.len() == 32);
        out.copy_from_slice(&km);
        Some(output)
    }
}

/// Stub for `BytesMut::new()`: a buffer with spare capacity, so that serialising a handshake
/// frame never takes BytesMut's growth path (its pointer-tagging arithmetic does not finish
/// under CBMC). Same observable behaviour for frames <= 128 bytes.
pub(crate) fn bytesmut_prealloc() -> BytesMut {
    BytesMut::with_capacity(128)
}

/// Stub for `BytesMut::freeze`: same bytes in a fresh buffer (the real conversion decodes an
/// offset from pointer tag bits, which CBMC cannot resolve).
pub(crate) fn freeze_copy(this: BytesMut) -> Bytes {
    let b = Bytes::copy_from_slice(&this[..]);
    core::mem::forget(this);
    b
}

/// Stub for `postcard::to_io` in the C07 harnesses (frame bodies are not C07's subject; the
/// serializer's io::Write plumbing does not finish under CBMC): writes nothing.
pub(crate) fn to_io_noop<T: serde::Serialize + ?Sized, W: std::io::Write>(_value: &T, writer: W) -> postcard::Result<W> {
    Ok(writer)
}

/// Drive a future whose leaf futures are always ready.
pub(crate) fn run<F: std::future::Future>(f: F) -> F::Output {
    let mut f = Box::pin(f);
    let mut cx = Context::from_waker(Waker::noop());
    let mut i = 0;
    loop {
        if let Poll::Ready(v) = f.as_mut().poll(&mut cx) {
            return v;
        }
        i += 1;
        assert!(i < 3, "always-ready mock: future must not pend");
    }
}

// ------------------------------------------------------------------ C03 kernels

/// C03: key-material authentication succeeds only if the client's signature by the claimed key
/// over the first 16 bytes of the TLS keying material exported *with that key as context*
/// verifies, and the passed-through suffix matches.
#[kani::proof]
#[kani::unwind(70)]
#[kani::stub(vs::curve25519_dalek::edwards::CompressedEdwardsY::decompress, vs::decompress_all_valid)]
#[kani::stub(iroh_base::PublicKey::verify, vs::verify_oracle)]
#[kani::stub(n0_error::backtrace_enabled, vstubs::backtrace_disabled)]
fn c03_key_material_auth_binds_key_and_session() {
    let key = vs::any_key();
    let auth = KeyMaterialClientAuth { public_key: key, signature: kani::any(), key_material_suffix: kani::any() };
    let mut io = MockIo::new();
    io.km = if kani::any() { Some(kani::any()) } else { None };
    let r = auth.verify(&io);
    match (&r, io.km) {
        (Ok(()), Some(km)) => {
            assert!(io.km_calls.get() == 1);
            assert!(io.km_ctx.get() == *key.as_bytes());
            assert!(vs::sig_queries() == 1);
            let q = vs::sig_query(0);
            assert!(q.answer && q.key == *key.as_bytes() && q.sig == auth.signature);
            assert!(q.msg_len == 16);
            let mut k = 0;
            while k < 16 {
                assert!(q.msg[k] == km[k]);
                assert!(auth.key_material_suffix[k] == km[16 + k]);
                k += 1;
            }
        }
        (Ok(()), None) => assert!(false, "accepted without keying material"),
        (Err(_), Some(km)) => {
            let mut suffix_ok = true;
            let mut k = 0;
            while k < 16 {
                suffix_ok &= auth.key_material_suffix[k] == km[16 + k];
                k += 1;
            }
            let sig_ok = vs::sig_queries() == 1 && vs::sig_query(0).answer;
            assert!(!(suffix_ok && sig_ok));
        }
        (Err(_), None) => assert!(vs::sig_queries() == 0),
    }
    kani::cover!(r.is_ok());
    kani::cover!(r.is_err() && vs::sig_queries() == 1);
    core::mem::forget(r);
}

static mut B3_CALLS: usize = 0;
static mut B3_IN: [u8; 16] = [0; 16];
static mut B3_IN_LEN: usize = 0;
static mut B3_OUT: [u8; 32] = [0; 32];
/// blake3::derive_key as an uninterpreted function (records its input, fresh output).
fn derive_key_uf(context: &str, key_material: &[u8]) -> [u8; 32] {
    assert!(context.as_bytes() == DOMAIN_SEP_CHALLENGE.as_bytes());
    let out: [u8; 32] = kani::any();
    unsafe {
        B3_CALLS += 1;
        B3_IN_LEN = key_material.len();
        let n = if key_material.len() < 16 { key_material.len() } else { 16 };
        B3_IN[..n].copy_from_slice(&key_material[..n]);
        B3_OUT = out;
    }
    out
}

/// C03: challenge authentication succeeds only if the signature by the claimed key over
/// derive_key(domain, *this* challenge) verifies.
#[kani::proof]
#[kani::unwind(70)]
#[kani::stub(vs::curve25519_dalek::edwards::CompressedEdwardsY::decompress, vs::decompress_all_valid)]
#[kani::stub(iroh_base::PublicKey::verify, vs::verify_oracle)]
#[kani::stub(blake3::derive_key, derive_key_uf)]
#[kani::stub(n0_error::backtrace_enabled, vstubs::backtrace_disabled)]
fn c03_challenge_auth_binds_key_and_challenge() {
    let key = vs::any_key();
    let auth = ClientAuth { public_key: key, signature: kani::any() };
    let challenge = ServerChallenge { challenge: kani::any() };
    let r = auth.verify(&challenge);
    assert!(vs::sig_queries() == 1);
    let q = vs::sig_query(0);
    assert!(r.is_ok() == q.answer);
    assert!(q.key == *key.as_bytes() && q.sig == auth.signature);
    unsafe {
        assert!(B3_CALLS == 1 && B3_IN_LEN == 16 && B3_IN == challenge.challenge);
        assert!(q.msg_len == 32);
        let mut k = 0;
        while k < 32 {
            assert!(q.msg[k] == B3_OUT[k]);
            k += 1;
        }
    }
    kani::cover!(r.is_ok());
    kani::cover!(r.is_err());
    core::mem::forget(r);
}

fn leak_bytes<const L: usize>(buf: &[u8; L]) -> Bytes {
    let leaked: &'static [u8; L] = Box::leak(Box::new(*buf));
    Bytes::from_static(&leaked[..])
}

/// C03: the ClientAuth frame body is decoded exactly (postcard: 32 key bytes, length byte 64,
/// 64 signature bytes): the identity the server goes on to verify is the one the client sent,
/// and only valid curve points are accepted as identities.
#[kani::proof]
#[kani::unwind(70)]
#[kani::stub(vs::curve25519_dalek::edwards::CompressedEdwardsY::decompress, vs::decompress_oracle)]
#[kani::stub(n0_error::backtrace_enabled, vstubs::backtrace_disabled)]
fn c03_client_auth_frame_decoding() {
    let body: [u8; 97] = kani::any();
    let r: Result<ClientAuth, Error> = deserialize_frame(leak_bytes(&body));
    let mut key = [0u8; 32];
    key.copy_from_slice(&body[..32]);
    match &r {
        Ok(a) => {
            assert!(vs::oracle_answer(&key) == Some(true));
            assert!(*a.public_key.as_bytes() == key);
            assert!(body[32] == 64);
            let mut k = 0;
            while k < 64 {
                assert!(a.signature[k] == body[33 + k]);
                k += 1;
            }
        }
        Err(_) => assert!(vs::oracle_answer(&key) != Some(true) || body[32] != 64),
    }
    kani::cover!(r.is_ok());
    kani::cover!(r.is_err());
    core::mem::forget(r);
}

/// C03: the key-material auth header body (postcard, after base64) decodes to exactly the
/// key, signature and suffix the client sent: 32 key bytes, length byte 64, 64 signature bytes,
/// 16 suffix bytes; only valid curve points are accepted as claimed identity.
#[kani::proof]
#[kani::unwind(70)]
#[kani::stub(vs::curve25519_dalek::edwards::CompressedEdwardsY::decompress, vs::decompress_oracle)]
#[kani::stub(n0_error::backtrace_enabled, vstubs::backtrace_disabled)]
fn c03_key_material_header_decoding() {
    let body: [u8; 113] = kani::any();
    let r: Result<KeyMaterialClientAuth, postcard::Error> = postcard::from_bytes(&body);
    let mut key = [0u8; 32];
    key.copy_from_slice(&body[..32]);
    match &r {
        Ok(a) => {
            assert!(vs::oracle_answer(&key) == Some(true));
            assert!(*a.public_key.as_bytes() == key);
            assert!(body[32] == 64);
            let mut k = 0;
            while k < 64 {
                assert!(a.signature[k] == body[33 + k]);
                k += 1;
            }
            let mut k = 0;
            while k < 16 {
                assert!(a.key_material_suffix[k] == body[97 + k]);
                k += 1;
            }
        }
        Err(_) => assert!(vs::oracle_answer(&key) != Some(true) || body[32] != 64),
    }
    kani::cover!(r.is_ok());
    kani::cover!(r.is_err());
    core::mem::forget(r);
}

// ------------------------------------------------------------------ C07 admission segment

#[derive(Debug)]
struct MockAccess {
    allow: bool,
    with_reason: bool,
    connects: std::sync::atomic::AtomicUsize,
    disconnects: std::sync::atomic::AtomicUsize,
    last_disc_conn: std::sync::atomic::AtomicU64,
    last_disc_key0: std::sync::atomic::AtomicU64,
}

impl DynAccessControl for MockAccess {
    fn on_connect<'a>(&'a self, _request: &'a ClientRequest) -> Pin<Box<dyn std::future::Future<Output = Access> + Send + 'a>> {
        use std::sync::atomic::Ordering::Relaxed;
        self.connects.fetch_add(1, Relaxed);
        let v = if self.allow {
            Access::Allow
        } else if self.with_reason {
            Access::Deny { reason: Some(String::from("no")) }
        } else {
            Access::Deny { reason: None }
        };
        Box::pin(std::future::ready(v))
    }
    fn on_disconnect(&self, endpoint_id: iroh_base::EndpointId, connection_id: crate::server::ConnectionId) {
        use std::sync::atomic::Ordering::Relaxed;
        self.disconnects.fetch_add(1, Relaxed);
        self.last_disc_conn.store(connection_id.verif_raw(), Relaxed);
        self.last_disc_key0.store(endpoint_id.as_bytes()[0] as u64, Relaxed);
    }
}

/// C07 (guard kernel): the disconnect notification is tied to the guard's drop: a guard
/// created for an admitted connection notifies the policy exactly once, with the request's
/// endpoint and connection id, when it is dropped - also after being moved around - and not
/// before; a guard without policy (`empty`) notifies nobody.
#[kani::proof]
#[kani::unwind(40)]
#[kani::stub(vs::curve25519_dalek::edwards::CompressedEdwardsY::decompress, vs::decompress_all_valid)]
fn c07_guard_notifies_exactly_once_on_drop() {
    use std::sync::atomic::{AtomicU64, AtomicUsize, Ordering::Relaxed};
    let key = vs::any_key();
    let mock = Arc::new(MockAccess {
        allow: true,
        with_reason: false,
        connects: AtomicUsize::new(0),
        disconnects: AtomicUsize::new(0),
        last_disc_conn: AtomicU64::new(u64::MAX),
        last_disc_key0: AtomicU64::new(u64::MAX),
    });
    let access: Arc<dyn DynAccessControl> = mock.clone();
    let (parts, _) = http::Request::new(()).into_parts();
    let request = ClientRequest::new(key, crate::http::ProtocolVersion::V2, parts);
    let conn_id = request.connection_id().verif_raw();
    let guard = OnDisconnectGuard::for_access_control(access.clone(), &request);
    assert!(guard.connection_id().verif_raw() == conn_id);
    assert!(guard.endpoint_id().as_bytes() == key.as_bytes());
    assert!(mock.disconnects.load(Relaxed) == 0);
    // move it (as connection set-up does) - still nothing
    let boxed = Box::new((guard, 7u8));
    assert!(mock.disconnects.load(Relaxed) == 0);
    let other = OnDisconnectGuard::empty(key);
    drop(other);
    assert!(mock.disconnects.load(Relaxed) == 0, "an empty guard notifies nobody");
    drop(boxed);
    assert!(mock.disconnects.load(Relaxed) == 1);
    assert!(mock.last_disc_conn.load(Relaxed) == conn_id);
    assert!(mock.last_disc_key0.load(Relaxed) == key.as_bytes()[0] as u64);
    assert!(mock.connects.load(Relaxed) == 0);
    core::mem::forget(request);
    core::mem::forget(access);
    core::mem::forget(mock);
}

static SOLE_DISCONNECTS: std::sync::atomic::AtomicUsize = std::sync::atomic::AtomicUsize::new(0);
static SOLE_LAST_CONN: std::sync::atomic::AtomicU64 = std::sync::atomic::AtomicU64::new(u64::MAX);

#[derive(Debug)]
struct StaticCountingAccess;
impl DynAccessControl for StaticCountingAccess {
    fn on_connect<'a>(&'a self, _request: &'a ClientRequest) -> Pin<Box<dyn std::future::Future<Output = Access> + Send + 'a>> {
        Box::pin(std::future::ready(Access::Allow))
    }
    fn on_disconnect(&self, _endpoint_id: iroh_base::EndpointId, connection_id: crate::server::ConnectionId) {
        use std::sync::atomic::Ordering::Relaxed;
        SOLE_DISCONNECTS.fetch_add(1, Relaxed);
        SOLE_LAST_CONN.store(connection_id.verif_raw(), Relaxed);
    }
}

/// C07 (guard kernel): the disconnect is reported even when the guard is the *only* remaining
/// holder of the access policy (the embedder has released its own handles): the guard keeps
/// the policy alive until it has notified it.
#[kani::proof]
#[kani::unwind(40)]
#[kani::stub(vs::curve25519_dalek::edwards::CompressedEdwardsY::decompress, vs::decompress_all_valid)]
fn c07_guard_notifies_when_sole_owner_of_policy() {
    use std::sync::atomic::Ordering::Relaxed;
    let key = vs::key_from([0u8; 32]);
    let (parts, _) = http::Request::new(()).into_parts();
    let request = ClientRequest::new(key, crate::http::ProtocolVersion::V2, parts);
    let conn_id = request.connection_id().verif_raw();
    let guard = {
        let access: Arc<dyn DynAccessControl> = Arc::new(StaticCountingAccess);
        OnDisconnectGuard::for_access_control(access, &request)
        // every other handle to the policy is gone here
    };
    assert!(SOLE_DISCONNECTS.load(Relaxed) == 0);
    drop(guard);
    assert!(SOLE_DISCONNECTS.load(Relaxed) == 1);
    assert!(SOLE_LAST_CONN.load(Relaxed) == conn_id);
    core::mem::forget(request);
}

/// C07: connection ids are fresh: two requests get distinct, increasing ids.
#[kani::proof]
#[kani::unwind(40)]
#[kani::stub(vs::curve25519_dalek::edwards::CompressedEdwardsY::decompress, vs::decompress_all_valid)]
fn c07_connection_ids_fresh() {
    let key = vs::any_key();
    let g1 = OnDisconnectGuard::empty(key);
    let (parts, _) = http::Request::new(()).into_parts();
    let request = ClientRequest::new(key, crate::http::ProtocolVersion::V1, parts);
    let g2 = OnDisconnectGuard::empty(key);
    assert!(g1.connection_id().verif_raw() < request.connection_id().verif_raw());
    assert!(request.connection_id().verif_raw() < g2.connection_id().verif_raw());
    core::mem::forget(request);
}

#[kani::proof]
#[kani::unwind(70)]
#[kani::stub(vs::curve25519_dalek::edwards::CompressedEdwardsY::decompress, vs::decompress_all_valid)]
#[kani::stub(iroh_base::PublicKey::verify, vs::verify_oracle)]
#[kani::stub(n0_error::backtrace_enabled, vstubs::backtrace_disabled)]
fn c03_witness() {
    let key = vs::any_key();
    let auth = KeyMaterialClientAuth { public_key: key, signature: kani::any(), key_material_suffix: kani::any() };
    let mut io = MockIo::new();
    io.km = Some(kani::any());
    let r = auth.verify(&io);
    kani::assume(r.is_ok());
    core::mem::forget(r);
    assert!(false, "witness");
}

#[cfg(test)]
mod playback {
    use super::*;
    include!("/verif/.build/playback/iroh_relay__handshake.rs");
}



