#![allow(unreachable_pub, dead_code, missing_docs, unused_imports, unused_variables, unused_mut, static_mut_refs, clippy::all)]
// Kani harnesses for iroh-relay/src/ping_tracker.rs (C14).
use super::*;
include!("/verif/kani/common.rs");
include!("/verif/kani/common_tracing.rs");
include!("/verif/kani/common_clock.rs");

/// Ghost model of "the latest ping": what the statement says must be tracked.
#[derive(Clone, Copy)]
struct Ghost {
    outstanding: bool,
    data: [u8; 8],
    sent_ms: u64,
    rtt_ms: Option<u64>,
}

/// C14: over every history of 3 operations (new ping / pong with arbitrary data / clock advance
/// in 100 ms ticks) with arbitrary rng output: the tracker is armed iff the latest ping is
/// unanswered; its deadline is that ping's send time + the timeout in force when it was sent;
/// the RTT changes only on a pong carrying the latest ping's data and then is now - send time;
/// stale / forged pongs change nothing.
#[kani::proof]
#[kani::unwind(12)]
#[kani::stub(rand::random, vstubs::any_random)]
#[kani::stub(tokio::time::Instant::now, cstubs::now)]
#[kani::stub(tracing::__macro_support::__is_enabled, tstubs::is_enabled)]
#[kani::stub(tracing::callsite::DefaultCallsite::interest, tstubs::interest)]
#[kani::stub(tracing::Event::dispatch, tstubs::dispatch)]
fn c14_latest_ping_only() {
    latest_ping_only::<3>();
}

/// Thorough rung: every history of 4 operations.
#[kani::proof]
#[kani::unwind(12)]
#[kani::stub(rand::random, vstubs::any_random)]
#[kani::stub(tokio::time::Instant::now, cstubs::now)]
#[kani::stub(tracing::__macro_support::__is_enabled, tstubs::is_enabled)]
#[kani::stub(tracing::callsite::DefaultCallsite::interest, tstubs::interest)]
#[kani::stub(tracing::Event::dispatch, tstubs::dispatch)]
fn c14_latest_ping_only_4_steps() {
    latest_ping_only::<4>();
}

fn latest_ping_only<const STEPS: usize>() {
    let mut t = PingTracker::default();
    let mut g = Ghost { outstanding: false, data: [0; 8], sent_ms: 0, rtt_ms: None };
    let mut now: u64 = 0;
    let mut step = 0;
    while step < STEPS {
        let op: u8 = kani::any();
        match op % 3 {
            0 => {
                let timeout_in_force = t.ping_timeout();
                let d = t.new_ping();
                g.outstanding = true;
                g.data = d;
                g.sent_ms = now;
                let inner = t.inner.as_ref().unwrap();
                assert!(inner.deadline == inner.sent_at + timeout_in_force);
            }
            1 => {
                let data: [u8; 8] = kani::any();
                let matches = g.outstanding && data == g.data;
                let before_rtt = t.last_rtt;
                let before_armed = t.inner.is_some();
                t.pong_received(data);
                if matches {
                    g.outstanding = false;
                    g.rtt_ms = Some(now - g.sent_ms);
                } else {
                    assert!(t.last_rtt == before_rtt && t.inner.is_some() == before_armed);
                }
            }
            _ => {
                let ticks: u8 = kani::any();
                now += ticks as u64 * 100;
                cstubs::set(now);
            }
        }
        assert!(t.inner.is_some() == g.outstanding);
        if let Some(inner) = &t.inner {
            assert!(inner.data == g.data);
            assert!(inner.sent_at == cstubs::at(g.sent_ms));
        }
        assert!(t.last_rtt.is_some() == g.rtt_ms.is_some());
        if let (Some(a), Some(b)) = (t.last_rtt, g.rtt_ms) {
            assert!(a.as_millis() as u64 == b);
        }
        step += 1;
    }
    kani::cover!(g.rtt_ms.is_some() && g.outstanding, "measured rtt and a newer ping outstanding");
    kani::cover!(g.rtt_ms == Some(1000), "rtt of one second");
}

/// C14: the next ping's timeout is three times the measured round trip, clamped to
/// [500 ms, max]; max when nothing was measured.
#[kani::proof]
#[kani::unwind(12)]
fn c14_timeout_is_clamped_triple_rtt() {
    let max_s: u64 = kani::any();
    kani::assume(max_s >= 1 && max_s <= 120);
    let mut t = PingTracker::new(Duration::from_secs(max_s));
    assert!(t.ping_timeout() == Duration::from_secs(max_s));
    let rtt_ms: u32 = kani::any();
    kani::assume(rtt_ms <= 200_000);
    t.last_rtt = Some(Duration::from_millis(rtt_ms as u64));
    let got = t.ping_timeout().as_millis() as u64;
    let triple = rtt_ms as u64 * 3;
    let want = if triple < 500 { 500 } else if triple > max_s * 1000 { max_s * 1000 } else { triple };
    assert!(got == want);
    kani::cover!(want == 500);
    kani::cover!(want == triple && triple > 500);
    kani::cover!(want == max_s * 1000 && triple > want);
}

/// C14: for *every* configured maximum (also below the 500 ms floor) and every measured round
/// trip, computing the next timeout never panics and the result stays within the configured
/// bound: min(500 ms, max) <= timeout <= max.
#[kani::proof]
#[kani::unwind(12)]
fn c14_timeout_total_for_any_max() {
    let max_ms: u32 = kani::any();
    let mut t = PingTracker::new(Duration::from_millis(max_ms as u64));
    let rtt_ms: u32 = kani::any();
    kani::assume(rtt_ms <= 200_000);
    if kani::any() {
        t.last_rtt = Some(Duration::from_millis(rtt_ms as u64));
    }
    let got = t.ping_timeout().as_millis() as u64;
    let max = max_ms as u64;
    assert!(got <= max);
    assert!(got >= if max < 500 { max } else { 500 } || t.last_rtt.is_none());
    kani::cover!(max_ms < 500 && t.last_rtt.is_some());
    kani::cover!(max_ms > 5000);
}

/// C14: a stale pong (data of an older ping) or forged pong never disarms the tracker nor
/// changes the RTT.
#[kani::proof]
#[kani::unwind(12)]
#[kani::stub(rand::random, vstubs::any_random)]
#[kani::stub(tokio::time::Instant::now, cstubs::now)]
#[kani::stub(tracing::__macro_support::__is_enabled, tstubs::is_enabled)]
#[kani::stub(tracing::callsite::DefaultCallsite::interest, tstubs::interest)]
#[kani::stub(tracing::Event::dispatch, tstubs::dispatch)]
fn c14_stale_pong_ignored() {
    let mut t = PingTracker::default();
    let first = t.new_ping();
    cstubs::set(100);
    let second = t.new_ping();
    kani::assume(first != second);
    cstubs::set(250);
    t.pong_received(first);
    assert!(t.inner.is_some());
    assert!(t.last_rtt.is_none());
    assert!(t.inner.as_ref().unwrap().deadline == cstubs::at(100 + 5000));
    let forged: [u8; 8] = kani::any();
    kani::assume(forged != second);
    t.pong_received(forged);
    assert!(t.inner.is_some() && t.last_rtt.is_none());
    t.pong_received(second);
    assert!(t.inner.is_none());
    assert!(t.last_rtt == Some(Duration::from_millis(150)));
    assert!(t.ping_timeout() == Duration::from_millis(500));
}

#[kani::proof]
#[kani::unwind(12)]
#[kani::stub(rand::random, vstubs::any_random)]
#[kani::stub(tokio::time::Instant::now, cstubs::now)]
#[kani::stub(tracing::__macro_support::__is_enabled, tstubs::is_enabled)]
#[kani::stub(tracing::callsite::DefaultCallsite::interest, tstubs::interest)]
#[kani::stub(tracing::Event::dispatch, tstubs::dispatch)]
fn c14_witness() {
    let mut t = PingTracker::default();
    let d = t.new_ping();
    cstubs::set(700);
    t.pong_received(d);
    kani::assume(t.ping_timeout() == Duration::from_millis(2100));
    assert!(false, "witness");
}

#[cfg(test)]
mod playback {
    use super::*;
    include!("/verif/.build/playback/iroh_relay__ping_tracker.rs");
}
