#![allow(unreachable_pub, dead_code, missing_docs, unused_imports, unused_variables, unused_mut, static_mut_refs, clippy::all)]
// Kani harnesses for iroh-relay/src/http.rs (C11 kernel: version tokens).
use super::*;
include!("/verif/kani/common.rs");

/// C11 kernel: a token names a version iff it is exactly that version's identifier (no
/// trimming, no case folding, no prefixes); identifiers are distinct; ALL lists every
/// variant; the newest version is the maximum of the derived order.
#[kani::proof]
#[kani::unwind(20)]
fn c11_version_token_exact_match() {
    const N: usize = 16;
    let raw: [u8; N] = kani::any();
    let len: usize = kani::any();
    kani::assume(len <= N);
    let mut j = 0;
    while j < N {
        kani::assume(raw[j] < 128);
        j += 1;
    }
    let s = unsafe { std::str::from_utf8_unchecked(&raw[..len]) };
    let got = ProtocolVersion::match_from_str(s);
    let is_v1 = s.as_bytes() == b"iroh-relay-v1";
    let is_v2 = s.as_bytes() == b"iroh-relay-v2";
    match got {
        Some(ProtocolVersion::V1) => assert!(is_v1),
        Some(ProtocolVersion::V2) => assert!(is_v2),
        None => assert!(!is_v1 && !is_v2),
    }
    kani::cover!(got == Some(ProtocolVersion::V1));
    kani::cover!(got == Some(ProtocolVersion::V2));
    kani::cover!(got.is_none() && len == 13);
}

#[kani::proof]
#[kani::unwind(20)]
fn c11_version_order_and_names() {
    assert!(ProtocolVersion::V2 > ProtocolVersion::V1);
    assert!(std::cmp::max(ProtocolVersion::V1, ProtocolVersion::V2) == ProtocolVersion::V2);
    assert!(ProtocolVersion::V1.to_str().as_bytes() == b"iroh-relay-v1");
    assert!(ProtocolVersion::V2.to_str().as_bytes() == b"iroh-relay-v2");
    assert!(ProtocolVersion::ALL.len() == 2);
    assert!(ProtocolVersion::ALL.contains(&ProtocolVersion::V1) && ProtocolVersion::ALL.contains(&ProtocolVersion::V2));
    assert!(ProtocolVersion::match_from_str(ProtocolVersion::V1.to_str()) == Some(ProtocolVersion::V1));
    assert!(ProtocolVersion::match_from_str(ProtocolVersion::V2.to_str()) == Some(ProtocolVersion::V2));
    assert!(ProtocolVersion::default() == ProtocolVersion::V2);
    let v = if kani::any() { ProtocolVersion::V1 } else { ProtocolVersion::V2 };
    assert!(v.to_header_value().as_bytes() == v.to_str().as_bytes());
}

#[kani::proof]
#[kani::unwind(20)]
fn c11_witness() {
    let raw: [u8; 13] = kani::any();
    let s = unsafe { std::str::from_utf8_unchecked(&raw[..]) };
    kani::assume(raw[0] < 128);
    kani::assume(ProtocolVersion::match_from_str(s) == Some(ProtocolVersion::V1));
    assert!(false, "witness");
}

#[cfg(test)]
mod playback {
    use super::*;
    include!("/verif/.build/playback/iroh_relay__http.rs");
}
