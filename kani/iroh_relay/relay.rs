#![allow(unreachable_pub, dead_code, missing_docs, unused_imports, unused_variables, unused_mut, static_mut_refs, clippy::all)]
// Kani harnesses for iroh-relay/src/protos/relay.rs (C10 frames, C16 take_segments).
use super::*;
use iroh_base::verif_support as vs;
include!("/verif/kani/common.rs");

pub(crate) fn any_ecn() -> Option<noq_proto::EcnCodepoint> {
    noq_proto::EcnCodepoint::from_bits(kani::any())
}

pub(crate) fn ecn_bits(e: Option<noq_proto::EcnCodepoint>) -> u8 {
    e.map_or(0, |e| e as u8)
}

/// Heap-backed Bytes of symbolic length <= N with symbolic content.
pub(crate) fn any_bytes<const N: usize>(buf: &[u8; N]) -> (Bytes, usize) {
    // static-vtable Bytes (trivial clone/slice/drop for CBMC) over a leaked copy of the
    // symbolic buffer; symbolic logical length without any symbolic-size allocation.
    let len: usize = kani::any();
    kani::assume(len <= N);
    let leaked: &'static [u8; N] = Box::leak(Box::new(*buf));
    // truncate (not slice): keeps a valid non-null pointer even for len == 0
    let mut b = Bytes::from_static(&leaked[..]);
    b.truncate(len);
    (b, len)
}

// ------------------------------------------------------------------ C16

/// C16 (one step, inductive): take_segments(n) partitions the batch exactly.
/// C16: same step for every n >= 1 up to usize::MAX (large n exercise the n * segment_size product).
#[kani::proof]
#[kani::unwind(4)]
fn c16_take_segments_step_any_n() {
    let n: usize = kani::any();
    kani::assume(n >= 1);
    take_segments_step(n);
}

fn take_segments_step(n: usize) {
    take_segments_step_n::<24>(n);
}

/// Thorough rung: the same step over contents of up to 96 bytes.
#[kani::proof]
#[kani::unwind(4)]
fn c16_take_segments_step_any_n_96() {
    let n: usize = kani::any();
    kani::assume(n >= 1);
    take_segments_step_n::<96>(n);
}

/// Thorough rung: contents of up to 4096 bytes (several MTU-sized datagrams).
#[kani::proof]
#[kani::unwind(4)]
fn c16_take_segments_step_any_n_4096() {
    let n: usize = kani::any();
    kani::assume(n >= 1);
    take_segments_step_n::<4096>(n);
}

fn take_segments_step_n<const N: usize>(n: usize) {
    let buf: [u8; N] = kani::any();
    let (contents, len) = any_bytes(&buf);
    let ss: Option<NonZeroU16> = kani::any();
    let ecn = any_ecn();
    let mut d = Datagrams { ecn, segment_size: ss, contents };
    let taken = d.take_segments(n);
    let tl = taken.contents.len();
    let rl = d.contents.len();
    // nothing lost, nothing duplicated, order kept
    assert!(tl + rl == len);
    let i: usize = kani::any();
    kani::assume(i < len);
    if i < tl {
        assert!(taken.contents[i] == buf[i]);
    } else {
        assert!(d.contents[i - tl] == buf[i]);
    }
    // ECN kept on both
    assert!(ecn_bits(taken.ecn) == ecn_bits(ecn) && ecn_bits(d.ecn) == ecn_bits(ecn));
    match ss {
        None => {
            assert!(tl == len && rl == 0);
            assert!(taken.segment_size.is_none());
            assert!(d.segment_size.is_none());
        }
        Some(s) => {
            let s = s.get() as usize;
            // at most n segments taken (division-free: ceil(tl/s) <= n  <=>  tl <= n*s)
            assert!(tl <= n.saturating_mul(s));
            // progress: a non-empty batch yields a non-empty take
            assert!(len == 0 || tl > 0);
            // takes whole segments, and as many as allowed, unless it takes everything
            assert!(rl == 0 || (n <= N && tl == n * s));
            // a segment size is carried only (and always) when more than one datagram is held
            assert!(taken.segment_size.is_some() == (tl > s));
            if let Some(t) = taken.segment_size {
                assert!(t.get() as usize == s);
            }
            // the rest keeps the batch invariant and its segment boundaries
            assert!(d.segment_size.is_some() == (rl > s));
            if let Some(t) = d.segment_size {
                assert!(t.get() as usize == s);
            }
        }
    }
    kani::cover!(ss.is_some() && rl > 0 && tl > 0, "split in the middle");
    kani::cover!(ss.is_some() && len % (ss.unwrap().get() as usize) != 0 && rl == 0, "ragged tail taken");
    kani::cover!(ss.is_some() && (ss.unwrap().get() as usize) > len, "segment size larger than contents");
    kani::cover!(n >= 2, "n above one");
    core::mem::forget(taken);
    core::mem::forget(d);
}

/// C16: three repeated takes from a symbolic start reassemble the original exactly.
#[kani::proof]
#[kani::unwind(4)]
fn c16_take_segments_repeated() {
    const N: usize = 12;
    let buf: [u8; N] = kani::any();
    let (contents, len) = any_bytes(&buf);
    let ss: Option<NonZeroU16> = kani::any();
    let mut d = Datagrams { ecn: any_ecn(), segment_size: ss, contents };
    let n1: usize = kani::any();
    let n2: usize = kani::any();
    kani::assume(n1 >= 1 && n1 <= 4 && n2 >= 1 && n2 <= 4);
    let a = d.take_segments(n1);
    let b = d.take_segments(n2);
    let c = d.take_segments(usize::MAX >> 17);
    assert!(d.contents.is_empty());
    let (al, bl, cl) = (a.contents.len(), b.contents.len(), c.contents.len());
    assert!(al + bl + cl == len);
    let i: usize = kani::any();
    kani::assume(i < len);
    let got = if i < al {
        a.contents[i]
    } else if i < al + bl {
        b.contents[i - al]
    } else {
        c.contents[i - al - bl]
    };
    assert!(got == buf[i]);
    kani::cover!(al > 0 && bl > 0 && cl > 0);
    core::mem::forget((a, b, c, d));
}

#[kani::proof]
#[kani::unwind(4)]
fn c16_witness() {
    const N: usize = 24;
    let buf: [u8; N] = kani::any();
    let (contents, _len) = any_bytes(&buf);
    let mut d = Datagrams { ecn: any_ecn(), segment_size: kani::any(), contents };
    let n: usize = kani::any();
    kani::assume(n >= 1 && n < 1000);
    let taken = d.take_segments(n);
    kani::assume(taken.segment_size.is_some() && d.segment_size.is_some());
    core::mem::forget(taken);
    core::mem::forget(d);
    assert!(false, "witness");
}

// ------------------------------------------------------------------ C10
// Round trip is decided in two halves against the wire layout written out here as a reference
// (encode(m) == layout(m) byte for byte; decode(b) == parse(b) field for field), which implies
// decode(encode(m)) == m and additionally pins the wire format. Encoders allocate by
// encoded_len(), and a symbolic allocation size blows CBMC up (DESIGN section 3), so message
// *lengths* are case-split into one harness per length (const generics); contents, keys, ECN,
// segment-size value, ping data, status codes, durations and protocol versions are symbolic.

fn cache() -> KeyCache {
    KeyCache::new(0)
}

fn fixed_bytes<const L: usize>(buf: &[u8; L]) -> Bytes {
    // static-vtable Bytes over a leaked copy: clone/slice/drop are trivial for CBMC (the
    // promotable/shared vtables drag atomics and deallocation into every slice()).
    if L == 0 {
        Bytes::new()
    } else {
        let leaked: &'static [u8; L] = Box::leak(Box::new(*buf));
        Bytes::from_static(&leaked[..])
    }
}

/// encode half, datagram frames (both directions share the layout, types differ by 2).
fn encode_datagrams<const L: usize, const BATCH: bool, const TO_CLIENT: bool>() {
    let buf: [u8; L] = kani::any();
    let key = vs::any_key();
    // segment size: enumerated over three concrete values (its zero/non-zero niche decides the
    // frame type, so a symbolic value would make both frame layouts reachable for CBMC)
    const SS: [u16; 3] = [1, 0x0102, u16::MAX];
    let mut k = 0;
    while k < (if BATCH { 3 } else { 1 }) {
        let ssv = NonZeroU16::new(SS[k]).unwrap();
        let ss = if BATCH { Some(ssv) } else { None };
        encode_datagrams_ss::<L, BATCH, TO_CLIENT>(buf, key, ssv, ss);
        k += 1;
    }
}

fn encode_datagrams_ss<const L: usize, const BATCH: bool, const TO_CLIENT: bool>(
    buf: [u8; L],
    key: EndpointId,
    ssv: NonZeroU16,
    ss: Option<NonZeroU16>,
) {
    // ECN enumerated concretely: its byte is the niche that holds the message enum's
    // discriminant, a symbolic value there makes CBMC explore every variant's encoder.
    let mut e = 0u8;
    while e < 4 {
        encode_datagrams_with::<L, BATCH, TO_CLIENT>(buf, ssv, ss, noq_proto::EcnCodepoint::from_bits(e), key);
        e += 1;
    }
}

fn encode_datagrams_with<const L: usize, const BATCH: bool, const TO_CLIENT: bool>(
    buf: [u8; L],
    ssv: NonZeroU16,
    ss: Option<NonZeroU16>,
    ecn: Option<noq_proto::EcnCodepoint>,
    key: EndpointId,
) {
    let d = Datagrams { ecn, segment_size: ss, contents: fixed_bytes(&buf) };
    let (enc, claimed) = if TO_CLIENT {
        let m = RelayToClientMsg::Datagrams { remote_endpoint_id: key, datagrams: d };
        let r = (m.write_to(Vec::with_capacity(80)), m.encoded_len());
        assert!(m.to_bytes().len() == r.1);
        core::mem::forget(m);
        r
    } else {
        let m = ClientToRelayMsg::Datagrams { dst_endpoint_id: key, datagrams: d };
        let r = (m.write_to(Vec::with_capacity(80)), m.encoded_len());
        core::mem::forget(m);
        r
    };
    let hdr = 1 + 32 + 1 + if BATCH { 2 } else { 0 };
    assert!(enc.len() == claimed && claimed == hdr + L);
    let ty = if TO_CLIENT { 6 } else { 4 } + if BATCH { 1 } else { 0 };
    assert!(enc[0] == ty);
    let kb = *key.as_bytes();
    let mut i = 0;
    while i < 32 {
        assert!(enc[1 + i] == kb[i]);
        i += 1;
    }
    assert!(enc[33] == ecn_bits(ecn));
    if BATCH {
        assert!(enc[34] == (ssv.get() >> 8) as u8 && enc[35] == ssv.get() as u8);
    }
    let mut j = 0;
    while j < L {
        assert!(enc[hdr + j] == buf[j]);
        j += 1;
    }
    core::mem::forget(enc);
}

macro_rules! enc_harness {
    ($name:ident, $l:expr, $b:expr, $c:expr) => {
        #[kani::proof]
        #[kani::unwind(45)]
        #[kani::stub(vs::curve25519_dalek::edwards::CompressedEdwardsY::decompress, vs::decompress_all_valid)]
        #[kani::stub(n0_error::backtrace_enabled, vstubs::backtrace_disabled)]
        fn $name() {
            encode_datagrams::<$l, $b, $c>();
        }
    };
}
enc_harness!(c10_encode_c2r_datagram_len0, 0, false, false);
enc_harness!(c10_encode_c2r_datagram_len7, 7, false, false);
enc_harness!(c10_encode_c2r_batch_len7, 7, true, false);
enc_harness!(c10_encode_r2c_datagram_len7, 7, false, true);
enc_harness!(c10_encode_r2c_batch_len0, 0, true, true);
enc_harness!(c10_encode_r2c_batch_len7, 7, true, true);
enc_harness!(c10_encode_c2r_batch_len40, 40, true, false);
enc_harness!(c10_encode_r2c_datagram_len40, 40, false, true);

fn any_status() -> Status {
    let s: u8 = kani::any();
    match s {
        0 => Status::Healthy,
        1 => Status::SameEndpointIdConnected,
        2 => Status::RateLimited,
        n => Status::Unknown(n),
    }
}

/// C10 encode half, fixed-size frames of both directions.
#[kani::proof]
#[kani::unwind(6)]
#[kani::stub(vs::curve25519_dalek::edwards::CompressedEdwardsY::decompress, vs::decompress_all_valid)]
#[kani::stub(n0_error::backtrace_enabled, vstubs::backtrace_disabled)]
fn c10_encode_fixed_frames() {
    let which: u8 = kani::any();
    kani::assume(which < 7);
    let data: [u8; 8] = kani::any();
    let key = vs::any_key();
    let st: u8 = kani::any();
    let (a, b): (u32, u32) = (kani::any(), kani::any());
    let i: usize = kani::any();
    let (enc, claimed, ty, plen) = match which {
        0 => {
            let m = ClientToRelayMsg::Ping(data);
            (m.write_to(Vec::with_capacity(48)), m.encoded_len(), 9u8, 8usize)
        }
        1 => {
            let m = ClientToRelayMsg::Pong(data);
            (m.write_to(Vec::with_capacity(48)), m.encoded_len(), 10, 8)
        }
        2 => {
            let m = RelayToClientMsg::Ping(data);
            (m.write_to(Vec::with_capacity(48)), m.encoded_len(), 9, 8)
        }
        3 => {
            let m = RelayToClientMsg::Pong(data);
            (m.write_to(Vec::with_capacity(48)), m.encoded_len(), 10, 8)
        }
        4 => {
            let m = RelayToClientMsg::EndpointGone(key);
            (m.write_to(Vec::with_capacity(48)), m.encoded_len(), 8, 32)
        }
        5 => {
            let status = match st {
                0 => Status::Healthy,
                1 => Status::SameEndpointIdConnected,
                2 => Status::RateLimited,
                n => Status::Unknown(n),
            };
            let m = RelayToClientMsg::Status(status);
            (m.write_to(Vec::with_capacity(48)), m.encoded_len(), 13, 1)
        }
        _ => {
            let m = RelayToClientMsg::Restarting {
                reconnect_in: Duration::from_millis(a as u64),
                try_for: Duration::from_millis(b as u64),
            };
            (m.write_to(Vec::with_capacity(48)), m.encoded_len(), 12, 8)
        }
    };
    assert!(enc.len() == claimed && claimed == 1 + plen);
    assert!(enc[0] == ty);
    kani::assume(i < plen);
    let want = match which {
        0..=3 => data[i],
        4 => key.as_bytes()[i],
        5 => st,
        _ => {
            if i < 4 { a.to_be_bytes()[i] } else { b.to_be_bytes()[i - 4] }
        }
    };
    assert!(enc[1 + i] == want);
    kani::cover!(which == 5 && st == 7);
    kani::cover!(which == 6);
    core::mem::forget(enc);
}

/// C10 encode half: V1 Health frame = type 11 + the problem text.
#[kani::proof]
#[kani::unwind(8)]
fn c10_encode_health() {
    const L: usize = 5;
    let raw: [u8; L] = kani::any();
    let mut j = 0;
    while j < L {
        kani::assume(raw[j] < 128);
        j += 1;
    }
    let problem = unsafe { std::str::from_utf8_unchecked(&raw[..]) }.to_owned();
    let m = RelayToClientMsg::Health { problem };
    let enc = m.write_to(Vec::with_capacity(16));
    assert!(enc.len() == m.encoded_len() && enc.len() == 1 + L);
    assert!(enc[0] == 11);
    let i: usize = kani::any();
    kani::assume(i < L);
    assert!(enc[1 + i] == raw[i]);
    core::mem::forget((m, enc));
}

fn be16(a: u8, b: u8) -> u16 {
    (a as u16) << 8 | b as u16
}

/// decode half, client->relay (server decoder): every byte string of total length L (first
/// byte < 64, i.e. a one-byte varint frame type) decodes exactly as the wire layout says.
///
/// ZK = true is the natively replayable twin: the key bytes are fixed to the all-zero key
/// (a valid point natively, so a counterexample replays without the decompress oracle) and the
/// oracle bookkeeping assertions are skipped.  All `kani::any()` calls of the harness body come
/// before the code under test so that a native replay consumes the same values in the same order.
fn decode_c2r<const T: u8, const L: usize, const ZK: bool>() {
    // frame type byte fixed to T (one harness per frame type and length)
    let mut buf: [u8; L] = kani::any();
    let i: usize = kani::any();
    if L > 0 {
        buf[0] = T;
    }
    if ZK && L >= 33 {
        let mut j = 1;
        while j < 33 {
            buf[j] = 0;
            j += 1;
        }
    }
    let r = ClientToRelayMsg::from_bytes(fixed_bytes(&buf), &cache());
    if L == 0 {
        assert!(r.is_err());
    } else {
        match buf[0] {
            4 | 5 => {
                let batch = buf[0] == 5;
                let hdr = if batch { 36 } else { 34 };
                if L < hdr {
                    assert!(r.is_err());
                } else {
                    let mut k = [0u8; 32];
                    k.copy_from_slice(&buf[1..33]);
                    match &r {
                        Ok(ClientToRelayMsg::Datagrams { dst_endpoint_id, datagrams }) => {
                            assert!(ZK || vs::oracle_answer(&k) == Some(true));
                            assert!(*dst_endpoint_id.as_bytes() == k);
                            assert!(ecn_bits(datagrams.ecn) == ecn_bits(noq_proto::EcnCodepoint::from_bits(buf[33])));
                            if batch {
                                assert!(datagrams.segment_size == NonZeroU16::new(be16(buf[34], buf[35])));
                            } else {
                                assert!(datagrams.segment_size.is_none());
                            }
                            assert!(datagrams.contents.len() == L - hdr);
                            if i < L - hdr {
                                assert!(datagrams.contents[i] == buf[hdr + i]);
                            }
                        }
                        Ok(_) => assert!(false, "wrong variant"),
                        Err(_) => assert!(!ZK && vs::oracle_answer(&k) == Some(false)),
                    }
                }
            }
            9 | 10 => {
                if L != 9 {
                    assert!(r.is_err());
                } else {
                    let i = i % 8;
                    match &r {
                        Ok(ClientToRelayMsg::Ping(d)) => assert!(buf[0] == 9 && d[i] == buf[1 + i]),
                        Ok(ClientToRelayMsg::Pong(d)) => assert!(buf[0] == 10 && d[i] == buf[1 + i]),
                        _ => assert!(false, "ping/pong must decode"),
                    }
                }
            }
            _ => assert!(r.is_err()),
        }
    }
    core::mem::forget(r);
}

/// decode half, relay->client (client decoder), both versions.
fn decode_r2c<const T: u8, const L: usize, const ZK: bool>() {
    // frame type byte fixed to T (one harness per frame type keeps the symbolic execution to
    // one decoder arm)
    let mut buf: [u8; L] = kani::any();
    let i: usize = kani::any();
    if L > 0 {
        if T < 64 {
            buf[0] = T;
        }
    }
    if ZK && L >= 33 {
        let mut j = 1;
        while j < 33 {
            buf[j] = 0;
            j += 1;
        }
    }
    let v2: bool = kani::any();
    let version = if v2 { ProtocolVersion::V2 } else { ProtocolVersion::V1 };
    let r = RelayToClientMsg::from_bytes(fixed_bytes(&buf), &cache(), version);
    if L == 0 {
        assert!(r.is_err());
    } else {
        match buf[0] {
            6 | 7 => {
                let batch = buf[0] == 7;
                let hdr = if batch { 36 } else { 34 };
                if L < hdr {
                    assert!(r.is_err());
                } else {
                    let mut k = [0u8; 32];
                    k.copy_from_slice(&buf[1..33]);
                    match &r {
                        Ok(RelayToClientMsg::Datagrams { remote_endpoint_id, datagrams }) => {
                            assert!(ZK || vs::oracle_answer(&k) == Some(true));
                            assert!(*remote_endpoint_id.as_bytes() == k);
                            assert!(ecn_bits(datagrams.ecn) == ecn_bits(noq_proto::EcnCodepoint::from_bits(buf[33])));
                            if batch {
                                assert!(datagrams.segment_size == NonZeroU16::new(be16(buf[34], buf[35])));
                            } else {
                                assert!(datagrams.segment_size.is_none());
                            }
                            assert!(datagrams.contents.len() == L - hdr);
                            if i < L - hdr {
                                assert!(datagrams.contents[i] == buf[hdr + i]);
                            }
                        }
                        Ok(_) => assert!(false, "wrong variant"),
                        Err(_) => assert!(!ZK && vs::oracle_answer(&k) == Some(false)),
                    }
                }
            }
            8 => {
                if L != 33 {
                    assert!(r.is_err());
                } else {
                    let mut k = [0u8; 32];
                    k.copy_from_slice(&buf[1..33]);
                    match &r {
                        Ok(RelayToClientMsg::EndpointGone(id)) => {
                            assert!((ZK || vs::oracle_answer(&k) == Some(true)) && *id.as_bytes() == k)
                        }
                        Ok(_) => assert!(false, "wrong variant"),
                        Err(_) => assert!(!ZK && vs::oracle_answer(&k) == Some(false)),
                    }
                }
            }
            9 | 10 => {
                if L != 9 {
                    assert!(r.is_err());
                } else {
                    let i = i % 8;
                    match &r {
                        Ok(RelayToClientMsg::Ping(d)) => assert!(buf[0] == 9 && d[i] == buf[1 + i]),
                        Ok(RelayToClientMsg::Pong(d)) => assert!(buf[0] == 10 && d[i] == buf[1 + i]),
                        _ => assert!(false, "ping/pong must decode"),
                    }
                }
            }
            12 => {
                if L != 9 {
                    assert!(r.is_err());
                } else {
                    match &r {
                        Ok(RelayToClientMsg::Restarting { reconnect_in, try_for }) => {
                            let a = u32::from_be_bytes([buf[1], buf[2], buf[3], buf[4]]);
                            let b = u32::from_be_bytes([buf[5], buf[6], buf[7], buf[8]]);
                            assert!(*reconnect_in == Duration::from_millis(a as u64));
                            assert!(*try_for == Duration::from_millis(b as u64));
                        }
                        _ => assert!(false, "restarting must decode"),
                    }
                }
            }
            13 => {
                if !v2 || L < 2 {
                    assert!(r.is_err());
                } else {
                    match &r {
                        Ok(RelayToClientMsg::Status(s)) => {
                            let want = match buf[1] {
                                0 => Status::Healthy,
                                1 => Status::SameEndpointIdConnected,
                                2 => Status::RateLimited,
                                n => Status::Unknown(n),
                            };
                            assert!(*s == want);
                        }
                        _ => assert!(false, "status must decode in v2"),
                    }
                }
            }
            _ => assert!(r.is_err()),
        }
    }
    core::mem::forget(r);
}

macro_rules! dec_c2r_harness {
    ($name:ident, $t:expr, $l:expr) => {
        #[kani::proof]
        #[kani::unwind(45)]
        #[kani::stub(vs::curve25519_dalek::edwards::CompressedEdwardsY::decompress, vs::decompress_oracle)]
        #[kani::stub(n0_error::backtrace_enabled, vstubs::backtrace_disabled)]
        fn $name() {
            decode_c2r::<$t, $l, false>();
        }
    };
}
dec_c2r_harness!(c10_decode_c2r_t4_len0, 4, 0);
dec_c2r_harness!(c10_decode_c2r_t4_len1, 4, 1);
dec_c2r_harness!(c10_decode_c2r_t4_len33, 4, 33);
dec_c2r_harness!(c10_decode_c2r_t4_len34, 4, 34);
dec_c2r_harness!(c10_decode_c2r_t4_len41, 4, 41);
dec_c2r_harness!(c10_decode_c2r_t5_len35, 5, 35);
dec_c2r_harness!(c10_decode_c2r_t5_len36, 5, 36);
dec_c2r_harness!(c10_decode_c2r_t5_len41, 5, 41);
dec_c2r_harness!(c10_decode_c2r_t9_len9, 9, 9);
dec_c2r_harness!(c10_decode_c2r_t9_len8, 9, 8);
dec_c2r_harness!(c10_decode_c2r_t10_len9, 10, 9);
dec_c2r_harness!(c10_decode_c2r_t10_len10, 10, 10);
dec_c2r_harness!(c10_decode_c2r_t0_len9, 0, 9);
dec_c2r_harness!(c10_decode_c2r_t6_len41, 6, 41);
dec_c2r_harness!(c10_decode_c2r_t8_len33, 8, 33);
dec_c2r_harness!(c10_decode_c2r_t13_len2, 13, 2);
dec_c2r_harness!(c10_decode_c2r_t14_len9, 14, 9);
dec_c2r_harness!(c10_decode_c2r_t63_len9, 63, 9);

macro_rules! dec_r2c_harness {
    ($name:ident, $t:expr, $l:expr) => {
        #[kani::proof]
        #[kani::unwind(45)]
        #[kani::stub(vs::curve25519_dalek::edwards::CompressedEdwardsY::decompress, vs::decompress_oracle)]
        #[kani::stub(n0_error::backtrace_enabled, vstubs::backtrace_disabled)]
        fn $name() {
            decode_r2c::<$t, $l, false>();
        }
    };
}
dec_r2c_harness!(c10_decode_r2c_t6_len33, 6, 33);
dec_r2c_harness!(c10_decode_r2c_t6_len34, 6, 34);
dec_r2c_harness!(c10_decode_r2c_t6_len41, 6, 41);
dec_r2c_harness!(c10_decode_r2c_t7_len35, 7, 35);
dec_r2c_harness!(c10_decode_r2c_t7_len36, 7, 36);
dec_r2c_harness!(c10_decode_r2c_t7_len41, 7, 41);
dec_r2c_harness!(c10_decode_r2c_t8_len32, 8, 32);
dec_r2c_harness!(c10_decode_r2c_t8_len33, 8, 33);
dec_r2c_harness!(c10_decode_r2c_t8_len34, 8, 34);
dec_r2c_harness!(c10_decode_r2c_t9_len9, 9, 9);
dec_r2c_harness!(c10_decode_r2c_t9_len10, 9, 10);
dec_r2c_harness!(c10_decode_r2c_t10_len9, 10, 9);
dec_r2c_harness!(c10_decode_r2c_t10_len8, 10, 8);
dec_r2c_harness!(c10_decode_r2c_t12_len9, 12, 9);
dec_r2c_harness!(c10_decode_r2c_t12_len8, 12, 8);
dec_r2c_harness!(c10_decode_r2c_t13_len1, 13, 1);
dec_r2c_harness!(c10_decode_r2c_t13_len2, 13, 2);
dec_r2c_harness!(c10_decode_r2c_t13_len3, 13, 3);
dec_r2c_harness!(c10_decode_r2c_t6_len0, 6, 0);
dec_r2c_harness!(c10_decode_r2c_t0_len9, 0, 9);
dec_r2c_harness!(c10_decode_r2c_t4_len41, 4, 41);
dec_r2c_harness!(c10_decode_r2c_t5_len41, 5, 41);
dec_r2c_harness!(c10_decode_r2c_t14_len9, 14, 9);
dec_r2c_harness!(c10_decode_r2c_t63_len9, 63, 9);

macro_rules! dec_zk_harness {
    ($name:ident, $f:ident, $t:expr, $l:expr) => {
        #[kani::proof]
        #[kani::unwind(45)]
        #[kani::stub(vs::curve25519_dalek::edwards::CompressedEdwardsY::decompress, vs::decompress_all_valid)]
        #[kani::stub(n0_error::backtrace_enabled, vstubs::backtrace_disabled)]
        fn $name() {
            $f::<$t, $l, true>();
        }
    };
}
// natively replayable twins of the datagram-frame decoders (zero key)
dec_zk_harness!(c10_decode_c2r_t4_len41_zk, decode_c2r, 4, 41);
dec_zk_harness!(c10_decode_c2r_t5_len36_zk, decode_c2r, 5, 36);
dec_zk_harness!(c10_decode_c2r_t5_len41_zk, decode_c2r, 5, 41);
dec_zk_harness!(c10_decode_r2c_t6_len41_zk, decode_r2c, 6, 41);
dec_zk_harness!(c10_decode_r2c_t7_len36_zk, decode_r2c, 7, 36);
dec_zk_harness!(c10_decode_r2c_t7_len41_zk, decode_r2c, 7, 41);
dec_zk_harness!(c10_decode_r2c_t8_len33_zk, decode_r2c, 8, 33);

/// C10 decode half: Health is V1-only and carries its text unchanged; invalid UTF-8 is an error.
#[kani::proof]
#[kani::unwind(8)]
#[kani::stub(n0_error::backtrace_enabled, vstubs::backtrace_disabled)]
fn c10_decode_health() {
    const L: usize = 5;
    let mut buf: [u8; L] = kani::any();
    buf[0] = 11;
    let v2: bool = kani::any();
    let version = if v2 { ProtocolVersion::V2 } else { ProtocolVersion::V1 };
    let r = RelayToClientMsg::from_bytes(fixed_bytes(&buf), &cache(), version);
    let ascii = buf[1] < 128 && buf[2] < 128 && buf[3] < 128 && buf[4] < 128;
    match &r {
        Ok(RelayToClientMsg::Health { problem }) => {
            assert!(!v2);
            assert!(problem.len() == L - 1);
            let i: usize = kani::any();
            kani::assume(i < L - 1);
            assert!(problem.as_bytes()[i] == buf[1 + i]);
        }
        Ok(_) => assert!(false, "wrong variant"),
        Err(_) => assert!(v2 || !ascii),
    }
    kani::cover!(r.is_ok());
    kani::cover!(r.is_err() && !v2);
    core::mem::forget(r);
}

/// C10 totality for multi-byte varint frame types (first byte >= 64): never panics, and a
/// frame type value outside 0..=13 is always an error.
#[kani::proof]
#[kani::unwind(6)]
#[kani::stub(vs::curve25519_dalek::edwards::CompressedEdwardsY::decompress, vs::decompress_oracle)]
#[kani::stub(n0_error::backtrace_enabled, vstubs::backtrace_disabled)]
fn c10_decode_long_varint_total() {
    let buf: [u8; 12] = kani::any();
    kani::assume(buf[0] >= 64);
    let to_client: bool = kani::any();
    if to_client {
        kani::assume(buf[0] != 0x40 || buf[1] != 11);
        let r = RelayToClientMsg::from_bytes(fixed_bytes(&buf), &cache(), ProtocolVersion::V2);
        core::mem::forget(r);
    } else {
        let r = ClientToRelayMsg::from_bytes(fixed_bytes(&buf), &cache());
        if buf[0] >= 0xc0 || buf[0] >= 0x80 || buf[1] > 13 {
            // 4- and 8-byte forms can only hold an in-range tag with leading zeros; all that
            // matters is no panic. 2-byte form with tag > 13: error.
            if buf[0] < 0x80 && (buf[0] != 0x40 || buf[1] > 13) {
                assert!(r.is_err());
            }
        }
        core::mem::forget(r);
    }
}

/// C10 (limit agreement): the largest client->relay datagram frame a sender-side size check
/// (`encoded_len <= MAX_PACKET_SIZE`, non-empty: client/conn.rs start_send) accepts is accepted
/// by the relay's decoder, and the decoder's own limit is not smaller than the sender's.
#[kani::proof]
#[kani::unwind(6)]
#[kani::stub(vs::curve25519_dalek::edwards::CompressedEdwardsY::decompress, vs::decompress_all_valid)]
#[kani::stub(n0_error::backtrace_enabled, vstubs::backtrace_disabled)]
fn c10_limit_agreement() {
    const L: usize = MAX_PACKET_SIZE - 1 - 32 - 1; // largest single datagram a sender accepts
    static FRAME: [u8; MAX_PACKET_SIZE] = {
        let mut a = [0u8; MAX_PACKET_SIZE];
        a[0] = 4;
        a
    };
    let r = ClientToRelayMsg::from_bytes(Bytes::from_static(&FRAME), &cache());
    match &r {
        Ok(ClientToRelayMsg::Datagrams { datagrams, .. }) => assert!(datagrams.contents.len() == L),
        _ => assert!(false, "a frame at the sender's limit must decode"),
    }
    core::mem::forget(r);
}

/// C10 (limit agreement, relay -> client): a datagram frame of exactly MAX_PACKET_SIZE bytes -
/// the largest the relay's sending half (`RelayedStream::start_send`, `is_forwardable`)
/// lets through - is accepted by the client-side decoder, in both protocol versions, single
/// and batch.
#[kani::proof]
#[kani::unwind(6)]
#[kani::stub(vs::curve25519_dalek::edwards::CompressedEdwardsY::decompress, vs::decompress_all_valid)]
#[kani::stub(n0_error::backtrace_enabled, vstubs::backtrace_disabled)]
fn c10_limit_agreement_r2c() {
    static FRAME6: [u8; MAX_PACKET_SIZE] = {
        let mut a = [0u8; MAX_PACKET_SIZE];
        a[0] = 6;
        a
    };
    static FRAME7: [u8; MAX_PACKET_SIZE] = {
        let mut a = [0u8; MAX_PACKET_SIZE];
        a[0] = 7;
        a[35] = 9; // segment size 9
        a
    };
    let v2: bool = kani::any();
    let version = if v2 { ProtocolVersion::V2 } else { ProtocolVersion::V1 };
    let r = RelayToClientMsg::from_bytes(Bytes::from_static(&FRAME6), &cache(), version);
    match &r {
        Ok(RelayToClientMsg::Datagrams { datagrams, .. }) => {
            assert!(datagrams.contents.len() == MAX_PACKET_SIZE - 34 && datagrams.segment_size.is_none())
        }
        _ => assert!(false, "a relay->client frame at the sender's limit must decode"),
    }
    core::mem::forget(r);
    let r = RelayToClientMsg::from_bytes(Bytes::from_static(&FRAME7), &cache(), version);
    match &r {
        Ok(RelayToClientMsg::Datagrams { datagrams, .. }) => {
            assert!(datagrams.contents.len() == MAX_PACKET_SIZE - 36 && datagrams.segment_size == NonZeroU16::new(9))
        }
        _ => assert!(false, "a relay->client batch frame at the sender's limit must decode"),
    }
    core::mem::forget(r);
}

#[kani::proof]
#[kani::unwind(6)]
#[kani::stub(vs::curve25519_dalek::edwards::CompressedEdwardsY::decompress, vs::decompress_oracle)]
#[kani::stub(n0_error::backtrace_enabled, vstubs::backtrace_disabled)]
fn c10_witness() {
    let buf: [u8; 41] = kani::any();
    let r = ClientToRelayMsg::from_bytes(fixed_bytes(&buf), &cache());
    kani::assume(matches!(&r, Ok(ClientToRelayMsg::Datagrams { datagrams, .. }) if datagrams.segment_size.is_some()));
    core::mem::forget(r);
    assert!(false, "witness");
}

#[cfg(test)]
mod playback {
    use super::*;
    include!("/verif/.build/playback/iroh_relay__relay.rs");
}


