#![allow(unreachable_pub, dead_code, missing_docs, unused_imports, unused_variables, unused_mut, static_mut_refs, clippy::all)]
// Kani harnesses for iroh-relay/src/server/client.rs (C05: what may enter another client's queue).
use super::*;
use bytes::Bytes;
use iroh_base::verif_support as vs;
include!("/verif/kani/common.rs");
include!("/verif/kani/common_tracing.rs");

static ZEROS: [u8; 65536 + 8] = [0u8; 65536 + 8];

/// C05: the only door into another client's connection is `Client::try_send_packet`. For
/// every payload length 0..=65544 (single datagram or batch): a datagram batch is queued for
/// the destination's actor iff the destination's sink will accept its frame
/// (`is_forwardable`); everything else is dropped with Ok(()) and the queue is untouched.
/// The `Client` is partially initialised (only its packet queue exists; the other fields need
/// a tokio runtime) - the function touches nothing else.
#[kani::proof]
#[kani::unwind(4)]
#[kani::stub(vs::curve25519_dalek::edwards::CompressedEdwardsY::decompress, vs::decompress_all_valid)]
#[kani::stub(n0_error::backtrace_enabled, vstubs::backtrace_disabled)]
#[kani::stub(tracing::__macro_support::__is_enabled, tstubs::is_enabled)]
#[kani::stub(tracing::callsite::DefaultCallsite::interest, tstubs::interest)]
#[kani::stub(tracing::Event::dispatch, tstubs::dispatch)]
fn c05_only_forwardable_enters_queue() {
    let len: usize = kani::any();
    kani::assume(len <= 65536 + 8);
    let batch: bool = kani::any();
    let mut b = Bytes::from_static(&ZEROS[..]);
    b.truncate(len);
    let d = Datagrams { ecn: None, segment_size: if batch { std::num::NonZeroU16::new(900) } else { None }, contents: b };
    let framed = 1 + 32 + 1 + if batch { 2 } else { 0 } + len;
    let fwd = len > 0 && framed <= 65536;
    assert!(d.is_forwardable() == fwd);

    let (tx, rx) = mpsc::channel::<Packet>(2);
    let mut c = core::mem::MaybeUninit::<Client>::uninit();
    unsafe { core::ptr::addr_of_mut!((*c.as_mut_ptr()).packet_queue).write(tx) };
    let client: &Client = unsafe { &*c.as_ptr() };
    let cap0 = client.packet_queue.capacity();
    let r = client.try_send_packet(vs::key_from([0u8; 32]), d);
    assert!(r.is_ok());
    let cap1 = client.packet_queue.capacity();
    if fwd {
        assert!(cap1 + 1 == cap0, "forwardable datagrams are queued");
    } else {
        assert!(cap1 == cap0, "unforwardable datagrams never enter the destination's queue");
    }
    kani::cover!(len == 0);
    kani::cover!(!fwd && len > 0 && batch);
    kani::cover!(fwd && framed == 65536);
    core::mem::forget(r);
    core::mem::forget(rx);
    core::mem::forget(c);
}

#[cfg(test)]
mod playback {
    use super::*;
    include!("/verif/.build/playback/iroh_relay__client.rs");
}
