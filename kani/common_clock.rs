// Clock stub (include!()-d where a harness needs time as a symbolic variable).
// tokio::time::Instant::now -> BASE + NOW_MS milliseconds, NOW_MS controlled by the harness.
#[allow(dead_code, unreachable_pub, static_mut_refs)]
pub(crate) mod cstubs {
    pub static mut NOW_MS: u64 = 0;
    pub fn base() -> tokio::time::Instant {
        // tokio::time::Instant is a transparent wrapper of std::time::Instant = {secs: i64, nanos: u32}
        let std_i: std::time::Instant = unsafe { core::mem::transmute([0u8; 16]) };
        tokio::time::Instant::from_std(std_i) + std::time::Duration::from_secs(1_000_000)
    }
    pub fn now() -> tokio::time::Instant {
        base() + std::time::Duration::from_millis(unsafe { NOW_MS })
    }
    pub fn set(ms: u64) {
        unsafe { NOW_MS = ms }
    }
    pub fn set_secs(s: u64) {
        unsafe { NOW_MS = s * 1000 }
    }
    pub fn at_secs(s: u64) -> tokio::time::Instant {
        base() + std::time::Duration::from_secs(s)
    }
    pub fn at(ms: u64) -> tokio::time::Instant {
        base() + std::time::Duration::from_millis(ms)
    }
}
