// Tracing stubs (include!()-d by harness modules of crates that depend on `tracing`).
// Needed because tracing's dispatcher is a thread-local with a destructor, which makes
// kani-compiler 0.68 panic whenever it is statically reachable. All events/spans disabled.
#[allow(dead_code, unreachable_pub)]
pub(crate) mod tstubs {
    pub fn is_enabled(_meta: &tracing::Metadata<'static>, _interest: tracing::subscriber::Interest) -> bool {
        false
    }
    pub fn interest(_this: &'static tracing::callsite::DefaultCallsite) -> tracing::subscriber::Interest {
        tracing::subscriber::Interest::never()
    }
    pub fn dispatch<'a>(_metadata: &'static tracing::Metadata<'static>, _fields: &'a tracing::field::ValueSet<'_>)
    where
        'a: 'a,
    {
    }
}
