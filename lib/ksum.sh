#!/bin/bash
# summarise krun output
/verif/lib/krun.sh "$@" 2>&1 | grep -E "Checking harness|Failed Checks|^ File:|VERIFICATION:-|Verification Time|cover properties|of [0-9]+ failed|^error|krun exit|timed out|Stub:" 
