#!/bin/bash
# dev helper: krun.sh <pkg> <harness-filter> [timeout_s] [extra cargo-kani args...]
pkg=$1; h=$2; to=${3:-300}; shift 3 || shift $#
feat=""
case $pkg in iroh-relay) feat="--features server";; iroh-base) feat="--features key";; esac
cd /repo && ( ulimit -v 25000000; CARGO_NET_OFFLINE=true timeout $to cargo kani -p $pkg $feat -Z stubbing -Z unstable-options --harness "$h" --target-dir /verif/.build/$pkg "$@" 2>&1 )
echo "krun exit=$?"
