#!/bin/bash
# dev helper: krun.sh <pkg> <timeout_s> <harness-filter>... [-- extra cargo-kani args]
pkg=$1; to=$2; shift 2
hs=(); while [ $# -gt 0 ] && [ "$1" != "--" ]; do hs+=(--harness "$1"); shift; done; [ "$1" == "--" ] && shift
feat=""
case $pkg in iroh-relay) feat="--features server";; iroh-base) feat="--features key";; esac
par=(); [ ${#hs[@]} -gt 2 ] && par=(-j 6 --output-format terse)
cd /repo && ( ulimit -v 25000000; CARGO_NET_OFFLINE=true timeout $((to+600)) cargo kani -p $pkg $feat -Z stubbing -Z unstable-options "${hs[@]}" --harness-timeout ${to}s --target-dir /verif/.build/$pkg "${par[@]}" "$@" 2>&1 ) | grep -v "^warning\|^$\|Unwinding loop\|Not unwinding\|^\s*- Status: SUCCESS\|^Check [0-9]*:\|Description:\|Location:\|linker stdout"
echo "krun exit=${PIPESTATUS[0]}"
