#!/bin/bash
# confirm_seed.sh <worktree> <crate> [features]  : confirms a seeded defect in its scratch worktree
# (1) patch applies, crate compiles and ALL its existing tests + the demo run: only the demo may fail
# (2) without the patch the demo passes
wt=$1; crate=$2; feat=${3:-}
cd $wt || exit 9
export CARGO_TARGET_DIR=$wt/target CARGO_NET_OFFLINE=true
git checkout -q -- . ; git clean -fdq -e out -e target
fa=(); [ -n "$feat" ] && fa=(--features "$feat")
git apply out/patch.diff && git apply out/demo.diff || { echo "CONFIRM: apply failed"; exit 8; }
cargo test -p $crate "${fa[@]}" --offline --no-fail-fast $CONFIRM_EXTRA > out/confirm_with.log 2>&1
echo "with defect: $(grep -E '^test result' out/confirm_with.log | tr '\n' ';')"
grep -E "^test .* FAILED|^    [a-z_:0-9]+$" out/confirm_with.log | sort -u | head -10
git apply -R out/patch.diff
cargo test -p $crate "${fa[@]}" --offline --no-fail-fast $CONFIRM_EXTRA > out/confirm_without.log 2>&1
echo "without defect: $(grep -E '^test result' out/confirm_without.log | tr '\n' ';')"
git checkout -q -- . ; git clean -fdq -e out -e target
