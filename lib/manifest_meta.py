NOTES = ("All checks are solver-based bounded model checking of the real code (see DESIGN.md). Exit 2 = inconclusive "
         "(timeout, OOM, vacuous harness, build failure) and is never reported as a pass.")

CLAIMED = {
    "C34": {
        "text": "Jitter kernel: for every u64 stagger delay and every rng output add_jitter neither panics nor divides by zero, maps 0 to 0, "
                "and stays within +-20% (+-1 ms) for delays below 2^16 (quick) / 2^24 (thorough). Decided by CBMC on the compiled function.",
        "note": "Kernel only: stagger_call (tokio timers, FuturesUnorderedBounded) is outside the claim; rand::random stubbed to an arbitrary u64.",
    },
}

NA_WALL12 = "needs live tokio tasks/timers/channels (thread-locals with destructors make kani-compiler 0.68 ICE; Kani does not model concurrency): no decisive kernel can be symbolically executed"
PENDING = "harness not built yet in this revision (planned, DESIGN.md section 4); not claimed until its check exists and passes"
NOT_APPLICABLE = {
    "C04": "forwarding path = DashMap of Client actors whose constructor spawns tokio tasks and whose queues are mpsc receivers; " + NA_WALL12,
    "C06": "Clients::register/unregister need live Client actors; " + NA_WALL12,
    "C08": "schedule property between Inner::accept (hyper upgrade, tokio) and Clients::disconnect; " + NA_WALL12,
    "C21": "RemoteMap/RemoteStateActor are tokio tasks with JoinSet and mpsc receive loops; " + NA_WALL12,
    "C25": "DirectAddrUpdateState = tokio::spawn + async mutex + mpsc across threads; " + NA_WALL12,
    "C26": "the guard compares RelayUrl values (Url parsing/ordering exhausts CBMC even on concrete input) and the interleaving is across tokio tasks",
    "C27": "every Report::update branch inserts into BTreeMap<RelayUrl, Duration>; BTreeMap keyed by Arc<Url> exhausted CBMC memory (58 GB) in probes",
    "C28": "depends on RelayLatencies (BTreeMap<RelayUrl,..>) and net_report::Client state; same wall as C27",
    "C35": "the state machine is a closure inside resolve_host_all driven through tokio::time::timeout by a real DnsResolver; " + NA_WALL12,
    "C36": "hickory Message/Name/RecordSet construction from packet bytes + axum + store actor; nothing decisive is executable under CBMC (the signature gate is covered under C32)",
    "C38": "ZoneStore::{resolve,insert} are async over the redb actor and a tokio mutex; interleaving across tasks; " + NA_WALL12,
    "C39": "crash points of redb file I/O are not symbolically executable",
    "C40": "Router needs live endpoints, JoinSet, JoinHandle; " + NA_WALL12,
    "C41": "Router shutdown = JoinSet/JoinHandle/CancellationToken across tasks; " + NA_WALL12,
    "C43": "BTreeMap<RelayUrl, Arc<RelayConfig>> operations exhaust CBMC even on empty maps (58 GB) and keys need Url values",
}
for _p in ["C01","C02","C03","C05","C07","C09","C10","C11","C12","C13","C14","C15","C16","C17","C18","C19","C20","C22","C23","C24","C29","C30","C31","C32","C33","C37","C42"]:
    NOT_APPLICABLE.setdefault(_p, PENDING)

