NOTES = ("All checks are solver-based bounded model checking of the real code (see DESIGN.md). Exit 2 = inconclusive "
         "(timeout, OOM, vacuous harness, build failure) and is never reported as a pass.")

CLAIMED = {
    "C34": {
        "text": "Jitter kernel: for every u64 stagger delay and every rng output add_jitter neither panics nor divides by zero, maps 0 to 0, "
                "and stays within +-20% (+-1 ms) for delays below 2^16 (quick) / 2^24 (thorough). Decided by CBMC on the compiled function.",
        "note": "Kernel only: stagger_call (tokio timers, FuturesUnorderedBounded) is outside the claim; rand::random stubbed to an arbitrary u64.",
    },
}

CLAIMED.update({
    "C02": {"text": "Key/signature/custom-address encodings: for all 32-byte strings a PublicKey is accepted (from bytes, slices, 64-char hex, 52-char base32, z-base-32) only after the curve-validity oracle accepted exactly those bytes; other lengths are errors without panics; Signature and CustomAddr binary forms round-trip for every id and every payload length 0..=40 across the 30/31 inline/heap boundary. Bounded model checking of the real parsers (data-encoding included).",
            "note": "Curve validity is an uninterpreted oracle (stub of CompressedEdwardsY::decompress). Outside: SecretKey/sign/verify, serde/postcard/JSON, Display via fmt, URLs (Url::parse does not finish under CBMC), CustomAddr string form, non-ASCII input."},
    "C05": {"text": "No relay client can push a frame into another client's connection that the receiver's sink refuses: for every payload length 0..=65544 (single and batch) Client::try_send_packet queues a datagram iff Datagrams::is_forwardable, and is_forwardable coincides with the sink-side checks of RelayedStream::start_send (whose error would end the receiver's actor).",
            "note": "The actor loop itself (tokio select!, mpsc receive) is not compilable by Kani; that a sink error ends only the receiving actor, and that try_send_packet is the only producer of a client's packet queue, are by reading. Client is partially initialised (packet queue only). Encoder stubbed in the symbolic-length harnesses."},
    "C09": {"text": "Token bucket of the relay path: from_config is total and yields a full bucket (burst default rate/10); one consume step from every reachable state refills only by whole elapsed periods (never before one has elapsed, never above max), admits iff tokens remain, and throttles until exactly the first period boundary with a positive fill; no byte count, clock reading or reachable state makes it panic. Inductive step => bound for histories of any length.",
            "note": "Ranges: 8-bit (quick) / 12-bit (thorough) for the functional step, full u32-derived ranges for panic-freedom. RateLimited::poll_read (tokio Sleep) is outside: that it sleeps until the returned deadline is by reading. Clock stubbed (symbolic)."},
    "C10": {"text": "Relay frames: for every frame type and boundary length the encoders produce exactly the wire layout (and encoded_len is exact) and the decoders of both directions parse every byte string of that type/length exactly as the layout says, reject frames of the other protocol version, accept keys only if the validity oracle does, never panic; a frame at the sender's size limit is accepted by the receiver. encode==layout and decode==parse imply decode(encode(m))==m.",
            "note": "One harness per (frame type, total length); payload contents/keys/ping data/status/durations/versions symbolic, ECN and segment size enumerated over {all 4} x {1,0x0102,65535} on the encode side (niche-encoded enum discriminants). Payloads > 40 bytes and the LRU key cache are outside."},
    "C11": {"text": "Kernel only: a sub-protocol token names a version iff it equals that version's identifier exactly (all ASCII strings <= 16 bytes); identifiers distinct; V2 is the maximum of the derived order used to pick the newest offered version.",
            "note": "PARTIAL: the header-splitting pipeline lives inline in handle_relay_ws_upgrade (needs hyper::body::Incoming) and in ClientBuilder::connect; mutations there are not detected."},
    "C14": {"text": "Ping tracker: over every history of 3 operations with arbitrary ping data, pong data and clock advances the tracker is armed iff the latest ping is unanswered, its deadline is that ping's send time plus the timeout in force, RTT is taken only from a pong matching the latest ping, stale/forged pongs change nothing; the next timeout is clamp(3*rtt, 500 ms, max).",
            "note": "timeout() (tokio sleep_until) cannot be compiled by Kani: that it sleeps until exactly the stored deadline is by reading. rand::random and the clock are symbolic stubs."},
    "C16": {"text": "take_segments: one step from any batch (contents 0..=24 symbolic bytes, segment size None or 1..=65535, n in 1..=usize::MAX) partitions it exactly - taken||rest == original, at most n whole segments, ECN kept, segment_size Some iff more than one datagram on both parts; three repeated takes reassemble the original.",
            "note": "Bytes handles are static-vtable in the harness; contents longer than 24 bytes are outside (bytes are never inspected by the function)."},
    "C18": {"text": "Classification of ALL socket addresses (128-bit address, port, flow info, scope; all IPv4): synthetic kinds are recognised exactly by the reserved prefixes fd15:070a:510b:000{0,1,3}, are pairwise disjoint, keep their bits, and every other address passes through unchanged.",
            "note": "PARTIAL: AddrMap::{get,lookup} (the key<->address bijection under concurrency) is not decided - FxHashMap with symbolic keys does not finish and the real generate() uses rand::rng() (kani-compiler ICE)."},
    "C19": {"text": "Per-socket routing predicates: is_valid_send_addr and is_valid_default_addr equal the statement's rule for every bound-socket configuration (any address, prefix 0..=32/128, scope, flags), destination and optional source - fully symbolic.",
            "note": "PARTIAL: the selection over the prefix-sorted socket list, the never-fatal wrapper and the dispatch of synthetic addresses need live sockets/RemoteMap and are not decided."},
    "C32": {"text": "Signed packets: from_bytes / from_relay_payload accept exactly when the (embedded or given) key is a valid point, the signature oracle accepts (that key, signable(timestamp, payload) of this very packet, this signature) and the payload parses; accepted bytes are preserved; wrong sizes are rejected before any check; every value returned by the unchecked constructors can be inspected without panic.",
            "note": "Ed25519 and the DNS parser are uninterpreted oracles; signable is replaced by an injective model (its format! text is not decided). txt_records/Display/from_txt_strings outside. All packet bytes symbolic, payload lengths {0,2,4}."},
    "C33": {"text": "Timestamp::now: for arbitrary (backwards) wall-clock readings and up to 3 interferences per call by other threads (which can only raise the cell) or spurious CAS failures, the returned value is strictly greater than the cell's value immediately before the successful CAS and the cell then holds it - by induction every returned timestamp exceeds all earlier ones, for any number of threads.",
            "note": "Rely/guarantee over a sequentially consistent model of the single atomic cell (compare_exchange_weak stubbed with an environment step); hardware memory orderings and u64 wrap are outside."},
    "C37": {"text": "Ordering kernel: more_recent_than is a strict total order on (timestamp, payload) - irreflexive, asymmetric, transitive, total, prefix payloads ordered - over fully symbolic packets, so keeping a packet unless the stored one is more recent converges to the newest packet for every arrival order.",
            "note": "PARTIAL: the store actor, redb and the update report of ZoneStore::insert are not encodable; that the store applies exactly this comparison is by reading."},
})

CLAIMED.update({
    "C03": {"text": "Handshake verification kernels: key-material authentication succeeds only if the exporter material obtained with the claimed key as context has the passed-through suffix and the signature oracle accepts (claimed key, first 16 bytes of that material, client signature); challenge authentication only if the oracle accepts (claimed key, derive_key(domain, this challenge), client signature); the ClientAuth frame decodes to exactly the key/signature sent and only valid curve points are identities. All inputs symbolic.",
            "note": "PARTIAL: serverside() as a whole calls rand::rng() (thread-local with destructor => kani-compiler ICE): the fall-through between mechanisms and the denial frame are by reading. Ed25519, BLAKE3 and the TLS exporter are uninterpreted oracles."},
    "C07": {"text": "Guard kernel: a disconnect guard created for an admitted connection notifies the access policy exactly once - with the request's endpoint and connection id - when it is dropped (also after moves) and not before; a policy-less guard notifies nobody; connection ids are fresh and increasing.",
            "note": "PARTIAL: authorize_with/accept/deny (deny => no guard) go through write_frame, which did not finish under CBMC (BytesMut growth / postcard io plumbing; async fns cannot be stubbed); the guard's life inside the connection actor is a tokio task. Both by reading."},
})

CLAIMED.update({
    "C13": {"text": "Kernel only: the captive-portal challenge alphabet is exactly [A-Za-z0-9._-] for every Unicode scalar value.",
            "note": "PARTIAL: the handler (length bounds 1..=63, echo text, 204 status) runs on http::HeaderMap/HeaderValue/response::Builder, which did not finish under CBMC; mutations there are not detected."},
})

CLAIMED.update({
    "C42": {"text": "Hook-list kernel: for lists of 0, 2 and 3 hooks with every accept/reject pattern and arbitrary error codes, EndpointHooksList::before_connect accepts iff every hook accepts, and EndpointHooksList::after_handshake returns the first rejecting hook's error code and reason (else Accept); both consult hooks in installation order and none after the first rejection.",
            "note": "PARTIAL: the call sites in connect_with_opts / conn_from_noq_conn, the self-connect and empty-ALPN checks need a bound Endpoint / live connection and are by reading."},
})

CLAIMED.update({
    "C01": {"text": "Kernel only: the server-certificate verifier accepts a presented raw public key exactly when it is, byte for byte, the Ed25519 SubjectPublicKeyInfo of the dialed endpoint id and no intermediates are sent - for every 44-byte certificate and every dialed id; the handshake signature verifier accepts exactly when the presented raw public key is 32 bytes forming a valid point, the signature is 64 bytes and the signature oracle accepts that (key, transcript, signature) - i.e. proof of possession is checked against the presented key; client certificates are accepted only without intermediates; raw public keys are required.",
            "note": "PARTIAL: the TLS name encode/decode round trip does not finish under CBMC (str::split two-way searcher, format!), so name::decode is stubbed to return the dialed id; the TLS handshake, remote_id_from_noq_conn and connect_with_opts need live connections. A mutation of name::encode/decode or of the connect path is NOT detected."},
})

CLAIMED.update({
    "C31": {"text": "Kernel only: parsing a `key=value` TXT string keeps exactly the value after the first '=' - for every 4-byte printable value, including values that contain '=' - and rejects strings without '=' or with an unknown key.",
            "note": "PARTIAL: the encode side (to_txt_strings, Display/format!), address and relay-URL formatting/parsing, the signed-packet and DNS containers and multi-record infos are out of CBMC's reach; a mutation there is NOT detected."},
})

NA_WALL12 = "needs live tokio tasks/timers/channels (thread-locals with destructors make kani-compiler 0.68 ICE; Kani does not model concurrency): no decisive kernel can be symbolically executed"
PENDING = "harness not built yet in this revision (planned, DESIGN.md section 4); not claimed until its check exists and passes"
NOT_APPLICABLE = {
    "C04": "forwarding path = DashMap of Client actors whose constructor spawns tokio tasks and whose queues are mpsc receivers; " + NA_WALL12,
    "C06": "Clients::register/unregister need live Client actors; " + NA_WALL12,
    "C08": "schedule property between Inner::accept (hyper upgrade, tokio) and Clients::disconnect; " + NA_WALL12,
    "C21": "RemoteMap/RemoteStateActor are tokio tasks with JoinSet and mpsc receive loops; " + NA_WALL12,
    "C25": "DirectAddrUpdateState = tokio::spawn + async mutex + mpsc across threads; " + NA_WALL12,
    "C26": "the guard compares RelayUrl values (Url parsing/ordering exhausts CBMC even on concrete input) and the interleaving is across tokio tasks",
    "C27": "every Report::update branch inserts into BTreeMap<RelayUrl, Duration>; BTreeMap keyed by Arc<Url> exhausted CBMC memory (58 GB) in probes",
    "C28": "depends on RelayLatencies (BTreeMap<RelayUrl,..>) and net_report::Client state; same wall as C27",
    "C35": "the state machine is a closure inside resolve_host_all driven through tokio::time::timeout by a real DnsResolver; " + NA_WALL12,
    "C36": "hickory Message/Name/RecordSet construction from packet bytes + axum + store actor; nothing decisive is executable under CBMC (the signature gate is covered under C32)",
    "C38": "ZoneStore::{resolve,insert} are async over the redb actor and a tokio mutex; interleaving across tasks; " + NA_WALL12,
    "C39": "crash points of redb file I/O are not symbolically executable",
    "C40": "Router needs live endpoints, JoinSet, JoinHandle; " + NA_WALL12,
    "C41": "Router shutdown = JoinSet/JoinHandle/CancellationToken across tasks; " + NA_WALL12,
    "C43": "BTreeMap<RelayUrl, Arc<RelayConfig>> operations exhaust CBMC even on empty maps (58 GB) and keys need Url values",
}
NOT_APPLICABLE["C12"] = "ClientRequest::auth_token walks http::HeaderMap::get_all and url::form_urlencoded::parse: HeaderMap insertion/hashing did not finish under CBMC within 200 s even for one empty header value (same wall as C13's handler), and percent-decoding allocates by symbolic length"
NOT_APPLICABLE["C15"] = "the only decisive synchronous kernel (pop_family) works on a VecDeque: VecDeque::remove at a symbolic index exhausts CBMC (26 GB at 2 elements) and even fully concrete 2-3 element queues did not finish in 15 min; the dialing loop itself is tokio timers/TcpStream/select!"
NOT_APPLICABLE["C20"] = "Builder::bind_addr_with_opts takes the Builder by value: its drop glue statically reaches thread-locals with destructors (DNS resolver / tokio), which makes kani-compiler 0.68 panic (intrinsics.rs:243) for any harness that reaches the function, even with an uninitialised Builder; the order dependence found by reading was repaired (see DESIGN section 5) but is not decided by a check"
NOT_APPLICABLE["C22"] = "RemotePathState keeps its paths in FxHashMap<transports::Addr, PathState>: hashbrown insertion/lookup does not finish under CBMC (a 2-element map with concrete keys timed out at 150 s), so neither the resolve/answer protocol nor the never-empty invariant can be executed"
NOT_APPLICABLE["C23"] = "prune_non_relay_paths works on FxHashMap<transports::Addr, PathState> with >= 30 entries plus a std HashSet and a sort: hashbrown does not finish under CBMC even for 2 concrete entries; the deviation found by reading (keeps len-10, not 10, inactive paths; pinned by test_prune_mixed_must_and_can_prune) is recorded in DESIGN section 5 as an observation only"
NOT_APPLICABLE["C24"] = "BiasedRttPathSelector::select needs a PathSelectionContext, which outside cfg(test) can only be built from live noq connections (FxHashMap<ConnId, ConnectionState>, weak connection handles), and its bias table is an FxHashMap (hashbrown does not finish under CBMC)"
NOT_APPLICABLE["C17"] = "RelayTransport::poll_recv was driven on a partially initialised transport (pending item + real mpsc receiver, Receiver::poll_recv stubbed to avoid tokio's thread-local): it compiles, but symbolic execution did not finish within 600 s and ran out of memory (25 GB) in a 50-minute attempt (the io::Error construction/drop paths of the closed-channel branch cannot be cut: io::Error::new is not resolvable for stubbing on this toolchain); harness kept in kani/attic/. The wedge suspected by reading (segment_size > buffer => zero-length datagrams reported forever; oversize datagram => Pending without polling the channel) is recorded in DESIGN section 5 as an observation only"
NOT_APPLICABLE["C29"] = "AddressLookupStream merges its services with futures-buffered's MergeBounded/FuturesUnorderedBounded: any harness that reaches its poll_next makes kani-compiler 0.68 panic (intrinsics.rs:243, thread-local with destructor); the stream's own 30-line state machine cannot be driven without it (harness kept in kani/attic/)"
NOT_APPLICABLE["C30"] = "needs interleavings of add_boxed and publish at lock boundaries: Kani has no threads; the planned nested-call schedule encoding needs pause hooks placed between two critical sections of the real code, which a correct (lock-holding) implementation does not have - the check could then no longer detect the regression it is meant for; the lost update found by reading (add reads last_data, a publish runs, the service is pushed with stale data) is an observation in DESIGN section 5"
_UNUSED_C31 = "the subject is string formatting/parsing of TXT attributes (format!, Display, FromStr, split): formatting machinery does not finish under CBMC (a single format! of a u64 timed out at 15 min) and the attribute table is a BTreeMap of Strings"
for _p in []:
    NOT_APPLICABLE.setdefault(_p, PENDING)

