"""Registry: which Kani harnesses decide which property, with bounds and trusted base.
Harness sources: /verif/kani/<crate>/<module>.rs, included into /repo by cfg(kani) hooks."""

CRATES = {
    "iroh-base": {"features": "key"},
    "iroh-relay": {"features": "server"},
    "iroh-dns": {"features": None},
    "iroh-dns-server": {"features": None},
    "iroh": {"features": None},
}

# playback module key -> (crate, rust module path of the harness module)
MODULES = {
    "iroh_dns__dns": ("iroh-dns", "dns::verif_kani"),
    "iroh_base__key": ("iroh-base", "key::verif_kani"),
    "iroh_base__endpoint_addr": ("iroh-base", "endpoint_addr::verif_kani"),
    "iroh_relay__relay": ("iroh-relay", "protos::relay::verif_kani"),
}

COMMON_STUBS = ["n0_error::backtrace_enabled -> false"]


def all_modules():
    return list(MODULES)


def H(module, name, desc, bounds, tier="quick", expect="pass", timeout=300, stub_env=False, stubs=()):
    crate, path = MODULES[module]
    return {"crate": crate, "module": module, "name": path + "::" + name, "desc": desc, "bounds": bounds, "tier": tier,
            "expect": expect, "timeout": timeout, "stub_env": stub_env, "stubs": list(stubs)}


def W(module, name, timeout=300, tier="quick"):
    return H(module, name, "reachability witness: must FAIL at its final assert!(false)", "-", tier=tier, expect="witness",
             timeout=timeout)


PROPS = {}

PROPS["C34"] = {
    "functions": ["iroh_dns::dns::add_jitter"],
    "bounds": "delay: all u64 for panic-freedom; delay in [3, 2^16) (quick) / [3, 2^24) (thorough) for the +-20% interval; rng output: all u64",
    "out": "stagger_call (tokio sleep + FuturesUnorderedBounded: thread-local with destructor, not encodable by Kani 0.68): "
           "first-success / collect-all-errors is not decided",
    "stubs": ["rand::random::<u64> -> arbitrary u64"],
    "assumptions": ["rand::random may return any u64"],
    "harnesses": [
        H("iroh_dns__dns", "c34_add_jitter_total", "add_jitter never panics / divides by zero for any delay and rng output; 0 -> 0",
          "delay: all u64, rng: all u64", stubs=["rand::random"]),
        H("iroh_dns__dns", "c34_add_jitter_bounded_16", "result within +-20% (+-1 ms rounding) of delay",
          "delay in [3,2^16), rng: all u64", stubs=["rand::random"]),
        H("iroh_dns__dns", "c34_add_jitter_small", "delays 1 and 2 are returned unchanged (too small to jitter)", "delay in {1,2}",
          stubs=["rand::random"]),
        W("iroh_dns__dns", "c34_add_jitter_witness"),
    ],
}

KEY_ORACLE = "curve25519_dalek::edwards::CompressedEdwardsY::decompress -> validity oracle (nondeterministic, deterministic per byte string, records queries)"
KEY_ALLVALID = "curve25519_dalek::edwards::CompressedEdwardsY::decompress -> every 32-byte string is a point (harnesses that only need *a* key)"
BT = "n0_error::backtrace_enabled -> false"

_K = "iroh_base__key"
_E = "iroh_base__endpoint_addr"
PROPS["C02"] = {
    "functions": ["iroh_base::key::PublicKey::{from_bytes,try_from<&[u8]>,try_from<&[u8;32]>,from_str,from_z32,to_z32,fmt_short,as_bytes}",
                  "iroh_base::key::decode_base32_hex", "iroh_base::key::Signature::{from_bytes,to_bytes,try_from<&[u8]>}",
                  "iroh_base::endpoint_addr::CustomAddr::{from_parts,to_vec,from_bytes,id,data}",
                  "iroh_base::endpoint_addr::CustomAddrBytes::{copy_from_slice,as_bytes,len}", "data_encoding HEXLOWER/BASE32_NOPAD/z-base-32 decode_mut/encode (real)"],
    "bounds": "keys: all 32-byte strings; hex path: all 64 ASCII chars symbolic (thorough) / 10 symbolic chars (quick); base32 path: 8 symbolic chars of 52; "
              "other lengths: {0,1,2,51,53,63,65,66}; slices 0..=40/70 bytes; CustomAddr: every id, payload length 0..=40 (inline/heap boundary 30/31), all contents",
    "out": "SecretKey / sign / verify (SHA-512 + scalar multiplication), serde/postcard/JSON forms, Display via fmt, RelayUrl / EndpointAddr containing URLs "
           "(Url::parse does not finish under CBMC even on concrete input), non-ASCII strings, CustomAddr::from_str / Display",
    "stubs": [KEY_ORACLE, KEY_ALLVALID, BT],
    "assumptions": ["curve-point validity is an uninterpreted oracle: what is decided is that iroh consults it on exactly the bytes it accepts"],
    "harnesses": [
        H(_K, "c02_key_from_bytes_iff_valid_point", "from_bytes accepts iff the validity oracle accepted exactly these bytes; bytes preserved", "all 32-byte strings"),
        H(_K, "c02_key_try_from_slice", "TryFrom<&[u8]>: Ok iff len==32 and oracle yes; other lengths never reach the oracle", "slices of 0..=40 symbolic bytes"),
        H(_K, "c02_key_from_str_hex64_window", "64-char FromStr path == lower-case hex decoding + oracle", "10 symbolic ASCII chars (first/last 5), rest '3'", timeout=400),
        H(_K, "c02_key_from_str_hex64", "64-char FromStr path == lower-case hex decoding + oracle", "all 64 chars symbolic ASCII", tier="thorough", timeout=1500),
        H(_K, "c02_key_from_str_hex64_accepts_all_hex", "every all-lower-hex 64-char string parses (given a valid point)", "all 64 chars symbolic hex", tier="thorough", timeout=900),
        H(_K, "c02_key_from_str_other_lengths", "lengths other than 52/64 are errors without consulting the oracle, no panic", "lengths {0,1,2,51,53,63,65,66}"),
        H(_K, "c02_key_from_str_base32_window", "52-char base32 path: case-insensitive, canonical trailing bits, oracle consulted on decoded bytes", "8 symbolic ASCII chars, rest 'A'", timeout=600),
        H(_K, "c02_key_z32_roundtrip", "from_z32(to_z32(k)) == k", "all 32-byte keys", timeout=600),
        H(_K, "c02_signature_roundtrip", "Signature::from_bytes/to_bytes identity; TryFrom<&[u8]> Ok iff 64 bytes", "all 64-byte strings; slices 0..=70"),
        W(_K, "c02_key_witness"),
        H(_E, "c02_custom_addr_binary_roundtrip", "from_bytes(to_vec(a)) == a fieldwise; id/data accessors; inline iff len<=30", "all ids, len 0..=40, all contents"),
        H(_E, "c02_custom_addr_eq_after_roundtrip", "derived == agrees across the inline/heap boundary", "len 28..=33"),
        H(_E, "c02_custom_addr_from_bytes_total", "from_bytes: Err iff < 8 bytes, id = LE(first 8), data = rest, no panic", "slices 0..=48 bytes"),
        W(_E, "c02_custom_addr_witness"),
    ],
}

_R = "iroh_relay__relay"
def _c10():
    hs = []
    for n in ["c2r_datagram_len0", "c2r_datagram_len7", "c2r_batch_len7", "r2c_datagram_len7", "r2c_batch_len0", "r2c_batch_len7"]:
        hs.append(H(_R, "c10_encode_" + n, "encode == wire layout byte for byte; encoded_len exact (to_bytes too on the relay side)", "payload length fixed by name, contents/key/ecn/segment size symbolic"))
    for n in ["c2r_batch_len40", "r2c_datagram_len40"]:
        hs.append(H(_R, "c10_encode_" + n, "encode == wire layout byte for byte", "40-byte payload", tier="thorough", timeout=900))
    hs.append(H(_R, "c10_encode_fixed_frames", "ping/pong/endpoint-gone/status/restarting encode == layout, encoded_len exact", "all field values"))
    hs.append(H(_R, "c10_encode_health", "Health = type 11 + text", "5 ASCII chars"))
    for t, l in [(4, 0), (4, 1), (4, 33), (4, 34), (4, 41), (5, 35), (5, 36), (5, 41), (9, 9), (9, 8), (10, 9), (10, 10), (0, 9), (6, 41), (8, 33), (13, 2), (14, 9), (63, 9)]:
        hs.append(H(_R, "c10_decode_c2r_t%d_len%d" % (t, l), "server decoder == reference parse for frame type %d (types other than 4,5,9,10 are errors)" % t,
                    "all %d-byte strings with this frame type byte" % l, timeout=300))
    for t, l in [(6, 0), (6, 33), (6, 34), (6, 41), (7, 35), (7, 36), (7, 41), (8, 32), (8, 33), (8, 34), (9, 9), (9, 10), (10, 9), (10, 8), (12, 8),
                 (13, 1), (13, 2), (13, 3), (0, 9), (4, 41), (5, 41), (14, 9), (63, 9)]:
        hs.append(H(_R, "c10_decode_r2c_t%d_len%d" % (t, l), "client decoder == reference parse for frame type %d, both versions (Status only in V2; non relay->client types are errors)" % t,
                    "all %d-byte strings with this frame type byte" % l, timeout=300))
    hs.append(H(_R, "c10_decode_r2c_t12_len9", "Restarting decodes to its two big-endian u32 millisecond durations", "all 9-byte strings of type 12", tier="thorough", timeout=900))
    hs.append(H(_R, "c10_decode_health", "Health only in V1, text preserved, invalid UTF-8 rejected", "type 11 + 4 symbolic bytes, both versions"))
    hs.append(H(_R, "c10_decode_long_varint_total", "multi-byte varint frame types never panic; out-of-range tags are errors", "12 symbolic bytes, first >= 64", timeout=600))
    hs.append(H(_R, "c10_limit_agreement", "a frame at the sender-side size limit is accepted by the receiving decoder", "frame of exactly MAX_PACKET_SIZE bytes", timeout=600))
    hs.append(W(_R, "c10_witness", timeout=600))
    return hs

PROPS["C10"] = {
    "functions": ["iroh_relay::protos::relay::{RelayToClientMsg,ClientToRelayMsg}::{write_to,encoded_len,from_bytes,typ,to_bytes}",
                  "Datagrams::{write_to,encoded_len,from_bytes}", "Status::{write_to,from_bytes}", "protos::common::FrameType::{write_to,from_bytes,encoded_len}",
                  "KeyCache::key_from_slice (cache disabled)", "noq_proto VarInt encode/decode (real)"],
    "bounds": "one harness per (frame type, total length): every frame type 4..=13 at its boundary lengths (min-1, min, min+1, 41) plus types 0,14,63 and cross-direction types; all other bytes symbolic; encode payload lengths {0,7,40}, ECN all 4 values, segment size {1,0x0102,65535}; both protocol versions",
    "out": "payload contents beyond 40 bytes (copied verbatim by put/slice), the LRU-enabled KeyCache, Health texts beyond 5 bytes / non-ASCII",
    "stubs": [KEY_ORACLE, KEY_ALLVALID, BT],
    "assumptions": ["round trip is decided as encode == reference layout and decode == reference parse (which implies decode(encode(m)) == m)"],
    "harnesses": _c10(),
}

PROPS["C16"] = {
    "functions": ["iroh_relay::protos::relay::Datagrams::take_segments", "bytes::Bytes::{split_to,len} (real)"],
    "bounds": "contents 0..=24 bytes (symbolic content), segment size None or 1..=65535, n in 1..=usize::MAX; 3 repeated takes on 0..=12 bytes",
    "out": "contents longer than 24 bytes (the arithmetic is length-generic; bytes are never inspected)",
    "stubs": [],
    "assumptions": [],
    "harnesses": [
        H(_R, "c16_take_segments_step_any_n", "one take partitions exactly: taken||rest == original, <= n segments, whole segments, ECN kept, segment_size Some iff > 1 datagram (both parts)", "len 0..=24, ss None|1..=65535, n 1..=usize::MAX"),
        H(_R, "c16_take_segments_repeated", "three successive takes reassemble the original", "len 0..=12, n1,n2 in 1..=4"),
        W(_R, "c16_witness"),
    ],
}
