"""Registry: which Kani harnesses decide which property, with bounds and trusted base.
Harness sources: /verif/kani/<crate>/<module>.rs, included into /repo by cfg(kani) hooks."""

CRATES = {
    "iroh-base": {"features": "key"},
    "iroh-relay": {"features": "server"},
    "iroh-dns": {"features": None},
    "iroh-dns-server": {"features": None},
    "iroh": {"features": None},
}

# playback module key -> (crate, rust module path of the harness module)
MODULES = {
    "iroh_dns__dns": ("iroh-dns", "dns::verif_kani"),
}

COMMON_STUBS = ["n0_error::backtrace_enabled -> false"]


def all_modules():
    return list(MODULES)


def H(module, name, desc, bounds, tier="quick", expect="pass", timeout=300, stub_env=False, stubs=()):
    crate, path = MODULES[module]
    return {"crate": crate, "module": module, "name": path + "::" + name, "desc": desc, "bounds": bounds, "tier": tier,
            "expect": expect, "timeout": timeout, "stub_env": stub_env, "stubs": list(stubs)}


def W(module, name, timeout=300, tier="quick"):
    return H(module, name, "reachability witness: must FAIL at its final assert!(false)", "-", tier=tier, expect="witness",
             timeout=timeout)


PROPS = {}

PROPS["C34"] = {
    "functions": ["iroh_dns::dns::add_jitter"],
    "bounds": "delay: all u64 for panic-freedom; delay in [3, 2^16) (quick) / [3, 2^24) (thorough) for the +-20% interval; rng output: all u64",
    "out": "stagger_call (tokio sleep + FuturesUnorderedBounded: thread-local with destructor, not encodable by Kani 0.68): "
           "first-success / collect-all-errors is not decided",
    "stubs": ["rand::random::<u64> -> arbitrary u64"],
    "assumptions": ["rand::random may return any u64"],
    "harnesses": [
        H("iroh_dns__dns", "c34_add_jitter_total", "add_jitter never panics / divides by zero for any delay and rng output; 0 -> 0",
          "delay: all u64, rng: all u64", stubs=["rand::random"]),
        H("iroh_dns__dns", "c34_add_jitter_bounded_16", "result within +-20% (+-1 ms rounding) of delay",
          "delay in [3,2^16), rng: all u64", stubs=["rand::random"]),
        H("iroh_dns__dns", "c34_add_jitter_small", "delays 1 and 2 are returned unchanged (too small to jitter)", "delay in {1,2}",
          stubs=["rand::random"]),
        W("iroh_dns__dns", "c34_add_jitter_witness"),
    ],
}
