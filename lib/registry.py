"""Registry: which Kani harnesses decide which property, with bounds and trusted base.
Harness sources: /verif/kani/<crate>/<module>.rs, included into /repo by cfg(kani) hooks."""

CRATES = {
    "iroh-base": {"features": "key"},
    "iroh-relay": {"features": "server"},
    "iroh-dns": {"features": None},
    "iroh-dns-server": {"features": None},
    "iroh": {"features": None},
}

# playback module key -> (crate, rust module path of the harness module)
MODULES = {
    "iroh_dns__dns": ("iroh-dns", "dns::verif_kani"),
    "iroh_base__key": ("iroh-base", "key::verif_kani"),
    "iroh_base__endpoint_addr": ("iroh-base", "endpoint_addr::verif_kani"),
    "iroh_relay__relay": ("iroh-relay", "protos::relay::verif_kani"),
    "iroh_relay__ping_tracker": ("iroh-relay", "ping_tracker::verif_kani"),
    "iroh_relay__http": ("iroh-relay", "http::verif_kani"),
    "iroh_relay__streams": ("iroh-relay", "server::streams::verif_kani"),
    "iroh_relay__client": ("iroh-relay", "server::client::verif_kani"),
    "iroh_relay__handshake": ("iroh-relay", "protos::handshake::verif_kani"),
    "iroh_relay__server": ("iroh-relay", "server::verif_kani"),
    "iroh_dns__pkarr": ("iroh-dns", "pkarr::verif_kani"),
    "iroh_dns__attrs": ("iroh-dns", "attrs::verif_kani"),
    "iroh__mapped_addrs": ("iroh", "socket::mapped_addrs::verif_kani"),
    "iroh__ip": ("iroh", "socket::transports::ip::verif_kani"),
    "iroh__hooks": ("iroh", "endpoint::hooks::verif_kani"),
    "iroh__verifier": ("iroh", "tls::verifier::verif_kani"),
}

COMMON_STUBS = ["n0_error::backtrace_enabled -> false"]


def all_modules():
    return list(MODULES)


def H(module, name, desc, bounds, tier="quick", expect="pass", timeout=900, stub_env=False, stubs=()):
    crate, path = MODULES[module]
    return {"crate": crate, "module": module, "name": path + "::" + name, "desc": desc, "bounds": bounds, "tier": tier,
            "expect": expect, "timeout": timeout, "stub_env": stub_env, "stubs": list(stubs)}


def W(module, name, timeout=900, tier="quick"):
    return H(module, name, "reachability witness: must FAIL at its final assert!(false)", "-", tier=tier, expect="witness",
             timeout=timeout)


PROPS = {}

PROPS["C34"] = {
    "functions": ["iroh_dns::dns::add_jitter"],
    "bounds": "delay: all u64 for panic-freedom; delay in [3, 2^16) (quick) / [3, 2^24) (thorough) for the +-20% interval; rng output: all u64",
    "out": "stagger_call (tokio sleep + FuturesUnorderedBounded: thread-local with destructor, not encodable by Kani 0.68): "
           "first-success / collect-all-errors is not decided",
    "stubs": ["rand::random::<u64> -> arbitrary u64"],
    "assumptions": ["rand::random may return any u64"],
    "harnesses": [
        H("iroh_dns__dns", "c34_add_jitter_total", "add_jitter never panics / divides by zero for any delay and rng output; 0 -> 0",
          "delay: all u64, rng: all u64", stubs=["rand::random"]),
        H("iroh_dns__dns", "c34_add_jitter_bounded_16", "result within +-20% (+-1 ms rounding) of delay",
          "delay in [3,2^16), rng: all u64", stubs=["rand::random"]),
        H("iroh_dns__dns", "c34_add_jitter_small", "delays 1 and 2 are returned unchanged (too small to jitter)", "delay in {1,2}",
          stubs=["rand::random"]),
        W("iroh_dns__dns", "c34_add_jitter_witness"),
    ],
}

KEY_ORACLE = "curve25519_dalek::edwards::CompressedEdwardsY::decompress -> validity oracle (nondeterministic, deterministic per byte string, records queries)"
KEY_ALLVALID = "curve25519_dalek::edwards::CompressedEdwardsY::decompress -> every 32-byte string is a point (harnesses that only need *a* key)"
BT = "n0_error::backtrace_enabled -> false"

_K = "iroh_base__key"
_E = "iroh_base__endpoint_addr"
PROPS["C02"] = {
    "functions": ["iroh_base::key::PublicKey::{from_bytes,try_from<&[u8]>,try_from<&[u8;32]>,from_str,from_z32,to_z32,fmt_short,as_bytes}",
                  "iroh_base::key::decode_base32_hex", "iroh_base::key::Signature::{from_bytes,to_bytes,try_from<&[u8]>}",
                  "iroh_base::endpoint_addr::CustomAddr::{from_parts,to_vec,from_bytes,id,data}",
                  "iroh_base::endpoint_addr::CustomAddrBytes::{copy_from_slice,as_bytes,len}", "data_encoding HEXLOWER/BASE32_NOPAD/z-base-32 decode_mut/encode (real)"],
    "bounds": "keys: all 32-byte strings; hex path: all 64 ASCII chars symbolic (thorough) / 10 symbolic chars (quick); base32 path: 8 symbolic chars of 52; "
              "other lengths: {0,1,2,51,53,63,65,66}; slices 0..=40/70 bytes; CustomAddr: every id, payload length 0..=40 (inline/heap boundary 30/31), all contents",
    "out": "SecretKey / sign / verify (SHA-512 + scalar multiplication), serde/postcard/JSON forms, Display via fmt, RelayUrl / EndpointAddr containing URLs "
           "(Url::parse does not finish under CBMC even on concrete input), non-ASCII strings, CustomAddr::from_str / Display",
    "stubs": [KEY_ORACLE, KEY_ALLVALID, BT, "curve25519_dalek::edwards::EdwardsPoint::compress -> compress(decompress(b)) = b iff b is canonical (y < p and not x=0 with the sign bit), another string otherwise; never reached on the unchanged tree"],
    "assumptions": ["curve-point validity is an uninterpreted oracle: what is decided is that iroh consults it on exactly the bytes it accepts"],
    "harnesses": [
        H(_K, "c02_key_from_bytes_iff_valid_point", "from_bytes accepts iff the validity oracle accepted exactly these bytes; bytes preserved", "all 32-byte strings"),
        H(_K, "c02_key_noncanonical_bytes_kept", "the accepted non-canonical encodings (y=p+1, y=p, x=0 with sign bit) are kept byte for byte by from_bytes / TryFrom<&[u8]> / TryFrom<&[u8;32]>, and the three results are equal (replays natively)", "3 concrete non-canonical encodings", stubs=["compress"]),
        H(_K, "c02_key_try_from_slice", "TryFrom<&[u8]>: Ok iff len==32 and oracle yes; other lengths never reach the oracle", "slices of 0..=40 symbolic bytes"),
        H(_K, "c02_key_from_str_hex64_window", "64-char FromStr path == lower-case hex decoding + oracle", "10 symbolic ASCII chars (first/last 5), rest '3'", timeout=900),
        H(_K, "c02_key_from_str_hex64", "64-char FromStr path == lower-case hex decoding + oracle", "all 64 chars symbolic ASCII", tier="thorough", timeout=1500),
        H(_K, "c02_key_from_str_hex64_accepts_all_hex", "every all-lower-hex 64-char string parses (given a valid point)", "all 64 chars symbolic hex", tier="thorough", timeout=900),
        H(_K, "c02_key_from_str_other_lengths", "lengths other than 52/64 are errors without consulting the oracle, no panic", "lengths {0,1,2,51,53,63,65,66}"),
        H(_K, "c02_key_from_str_base32_window", "52-char base32 path: case-insensitive, canonical trailing bits, oracle consulted on decoded bytes", "8 symbolic ASCII chars, rest 'A'", timeout=900),
        H(_K, "c02_key_z32_roundtrip", "from_z32(to_z32(k)) == k", "all 32-byte keys", timeout=900),
        H(_K, "c02_signature_roundtrip", "Signature::from_bytes/to_bytes identity; TryFrom<&[u8]> Ok iff 64 bytes", "all 64-byte strings; slices 0..=70"),
        W(_K, "c02_key_witness"),
        H(_E, "c02_custom_addr_binary_roundtrip", "from_bytes(to_vec(a)) == a fieldwise; id/data accessors; inline iff len<=30", "all ids, len 0..=40, all contents"),
        H(_E, "c02_custom_addr_eq_after_roundtrip", "derived == agrees across the inline/heap boundary", "len 28..=33"),
        H(_E, "c02_custom_addr_from_bytes_total", "from_bytes: Err iff < 8 bytes, id = LE(first 8), data = rest, no panic", "slices 0..=48 bytes"),
        W(_E, "c02_custom_addr_witness"),
    ],
}

_R = "iroh_relay__relay"
def _c10():
    hs = []
    for n in ["c2r_datagram_len0", "c2r_datagram_len7", "c2r_batch_len7", "r2c_datagram_len7", "r2c_batch_len0", "r2c_batch_len7"]:
        hs.append(H(_R, "c10_encode_" + n, "encode == wire layout byte for byte; encoded_len exact (to_bytes too on the relay side)", "payload length fixed by name, contents/key/ecn/segment size symbolic"))
    for n in ["c2r_batch_len40", "r2c_datagram_len40"]:
        hs.append(H(_R, "c10_encode_" + n, "encode == wire layout byte for byte", "40-byte payload", tier="thorough", timeout=900))
    hs.append(H(_R, "c10_encode_fixed_frames", "ping/pong/endpoint-gone/status/restarting encode == layout, encoded_len exact", "all field values"))
    hs.append(H(_R, "c10_encode_health", "Health = type 11 + text", "5 ASCII chars"))
    for t, l in [(4, 0), (4, 1), (4, 33), (4, 34), (4, 41), (5, 35), (5, 36), (5, 41), (9, 9), (9, 8), (10, 9), (10, 10), (0, 9), (6, 41), (8, 33), (13, 2), (14, 9), (63, 9)]:
        hs.append(H(_R, "c10_decode_c2r_t%d_len%d" % (t, l), "server decoder == reference parse for frame type %d (types other than 4,5,9,10 are errors)" % t,
                    "all %d-byte strings with this frame type byte" % l, timeout=900))
    for t, l in [(6, 0), (6, 33), (6, 34), (6, 41), (7, 35), (7, 36), (7, 41), (8, 32), (8, 33), (8, 34), (9, 9), (9, 10), (10, 9), (10, 8), (12, 8),
                 (13, 1), (13, 2), (13, 3), (0, 9), (4, 41), (5, 41), (14, 9), (63, 9)]:
        hs.append(H(_R, "c10_decode_r2c_t%d_len%d" % (t, l), "client decoder == reference parse for frame type %d, both versions (Status only in V2; non relay->client types are errors)" % t,
                    "all %d-byte strings with this frame type byte" % l, timeout=900))
    for d, t, l in [("c2r", 4, 41), ("c2r", 5, 36), ("c2r", 5, 41), ("r2c", 6, 41), ("r2c", 7, 36), ("r2c", 7, 41), ("r2c", 8, 33)]:
        hs.append(H(_R, "c10_decode_%s_t%d_len%d_zk" % (d, t, l), "natively replayable twin of the same decoder harness: key bytes fixed to the all-zero key (valid without the oracle), so a counterexample in the layout of a key-carrying frame replays against the real build",
                    "all %d-byte strings with this frame type byte and the zero key" % l, timeout=900))
    hs.append(H(_R, "c10_decode_r2c_t12_len9", "Restarting decodes to its two big-endian u32 millisecond durations", "all 9-byte strings of type 12", tier="thorough", timeout=900))
    hs.append(H(_R, "c10_decode_health", "Health only in V1, text preserved, invalid UTF-8 rejected", "type 11 + 4 symbolic bytes, both versions"))
    hs.append(H(_R, "c10_decode_long_varint_total", "multi-byte varint frame types never panic; out-of-range tags are errors", "12 symbolic bytes, first >= 64", timeout=900))
    hs.append(H(_R, "c10_limit_agreement", "a frame at the sender-side size limit is accepted by the receiving decoder", "frame of exactly MAX_PACKET_SIZE bytes", timeout=900))
    hs.append(H(_R, "c10_limit_agreement_r2c", "a relay->client datagram frame (single and batch) of exactly MAX_PACKET_SIZE bytes - the largest the relay's sending half lets through - is accepted by the client decoder, both versions", "frames of exactly MAX_PACKET_SIZE bytes", timeout=900))
    hs.append(W(_R, "c10_witness", timeout=900))
    return hs

PROPS["C10"] = {
    "functions": ["iroh_relay::protos::relay::{RelayToClientMsg,ClientToRelayMsg}::{write_to,encoded_len,from_bytes,typ,to_bytes}",
                  "Datagrams::{write_to,encoded_len,from_bytes}", "Status::{write_to,from_bytes}", "protos::common::FrameType::{write_to,from_bytes,encoded_len}",
                  "KeyCache::key_from_slice (cache disabled)", "noq_proto VarInt encode/decode (real)"],
    "bounds": "one harness per (frame type, total length): every frame type 4..=13 at its boundary lengths (min-1, min, min+1, 41) plus types 0,14,63 and cross-direction types; all other bytes symbolic; encode payload lengths {0,7,40}, ECN all 4 values, segment size {1,0x0102,65535}; both protocol versions",
    "out": "payload contents beyond 40 bytes (copied verbatim by put/slice), the LRU-enabled KeyCache, Health texts beyond 5 bytes / non-ASCII",
    "stubs": [KEY_ORACLE, KEY_ALLVALID, BT],
    "assumptions": ["round trip is decided as encode == reference layout and decode == reference parse (which implies decode(encode(m)) == m)"],
    "harnesses": _c10(),
}

PROPS["C16"] = {
    "functions": ["iroh_relay::protos::relay::Datagrams::take_segments", "bytes::Bytes::{split_to,len} (real)"],
    "bounds": "contents 0..=96 bytes (quick) / 0..=4096 bytes (thorough), symbolic content, segment size None or 1..=65535, n in 1..=usize::MAX; 3 repeated takes on 0..=12 bytes",
    "out": "contents longer than 4096 bytes (the arithmetic is length-generic; bytes are never inspected)",
    "stubs": [],
    "assumptions": [],
    "harnesses": [
        H(_R, "c16_take_segments_step_any_n", "one take partitions exactly: taken||rest == original, <= n segments, whole segments, ECN kept, segment_size Some iff > 1 datagram (both parts)", "len 0..=24, ss None|1..=65535, n 1..=usize::MAX"),
        H(_R, "c16_take_segments_step_any_n_96", "same one-step partition claim", "len 0..=96, ss None|1..=65535, n 1..=usize::MAX", timeout=900),
        H(_R, "c16_take_segments_step_any_n_4096", "same one-step partition claim", "len 0..=4096 (several MTU-sized datagrams), ss None|1..=65535, n 1..=usize::MAX", tier="thorough", timeout=1800),
        H(_R, "c16_take_segments_repeated", "three successive takes reassemble the original", "len 0..=12, n1,n2 in 1..=4"),
        W(_R, "c16_witness"),
    ],
}

SIG_ORACLE = "iroh_base::PublicKey::verify -> signature oracle (uninterpreted Ed25519: nondeterministic verdict, records key/message/signature)"
DNS_ORACLE = "simple_dns::Packet::parse -> 'payload parses?' oracle (the DNS parser is not the subject)"
_P = "iroh_dns__pkarr"
PROPS["C32"] = {
    "functions": ["iroh_dns::pkarr::SignedPacket::{from_bytes,from_relay_payload,from_bytes_unchecked,from_parts_unchecked,public_key,signature,timestamp,encoded_packet,as_bytes,to_relay_payload}",
                  "(iroh_dns::pkarr::signable is stubbed)"],
    "bounds": "packets of 104+P bytes, P in {0,2,4}, every byte (key, signature, timestamp, payload) symbolic; size limits at 0,1,96,103 and 1105 bytes",
    "out": "the BEP44 prefix text `3:seqi<ts>e1:v<len>:` (format! is stubbed to a placeholder, so that the *timestamp* is bound into the signed message is NOT decided - only that this packet's payload, key and signature are what gets verified), real Ed25519 / curve arithmetic and the real DNS parser (oracles), txt_records / all_txt_records / Display (simple-dns name handling), from_txt_strings (needs a SecretKey), payloads > 4 bytes, timestamps >= 1000",
    "stubs": [KEY_ORACLE, KEY_ALLVALID, SIG_ORACLE, DNS_ORACLE, BT, "iroh_dns::pkarr::signable -> injective model <8-byte BE timestamp>||payload (its format! is out of CBMC's reach)"],
    "assumptions": ["signature verification and DNS parsing are uninterpreted oracles: decided is *what* iroh asks them (which key, which message bytes, which signature) and that acceptance requires all of them"],
    "harnesses": [
        H(_P, "c32_from_bytes_authentic_p4_parses", "from_bytes Ok iff key valid & signature by the embedded key over (prefix||payload) verifies & payload parses; bytes preserved; accessors agree (payload oracle says yes)", "108-byte packets, all bytes symbolic", timeout=900, stub_env=True, stubs=["decompress", "verify", "Packet::parse", "format"]),
        H(_P, "c32_from_bytes_authentic_p4_parse_fails", "from_bytes Ok iff key valid & signature by the embedded key over (prefix||payload) verifies & payload parses; bytes preserved; accessors agree (payload oracle says no => always rejected)", "108-byte packets, all bytes symbolic", timeout=900, stub_env=True, stubs=["decompress", "verify", "Packet::parse", "format"]),
        H(_P, "c32_from_relay_payload_uses_given_key_parses", "from_relay_payload(K,x) verifies under K and embeds K; to_relay_payload inverts (payload oracle says yes)", "74-byte payloads", timeout=900, stub_env=True, stubs=["decompress", "verify", "Packet::parse", "format"]),
        H(_P, "c32_from_relay_payload_uses_given_key_parse_fails", "from_relay_payload(K,x) verifies under K and embeds K; to_relay_payload inverts (payload oracle says no => always rejected)", "74-byte payloads", timeout=900, stub_env=True, stubs=["decompress", "verify", "Packet::parse", "format"]),
        H(_P, "c32_from_bytes_whole_payload_signed_len1000", "around the 1000-byte DNS limit the signature is checked over every byte after the header (signed message length == 8 + payload length) and the accepted packet is the input", "packet of exactly 1000 bytes: header and last byte symbolic, rest zero", timeout=900, stub_env=True, stubs=["verify"]),
        H(_P, "c32_from_bytes_whole_payload_signed_len1001", "same, one byte past the DNS limit", "packet of exactly 1001 bytes", timeout=900, stub_env=True, stubs=["verify"]),
        H(_P, "c32_from_bytes_whole_payload_signed_len1104", "same, at the maximum signed-packet size", "packet of exactly 1104 bytes", timeout=900, stub_env=True, stubs=["verify"]),
        H(_P, "c32_size_limits", "too short / too long inputs rejected before any oracle is consulted", "lengths 0,1,96,103,1105"),
        H(_P, "c32_unchecked_is_safe_to_inspect", "values from from_bytes_unchecked / from_parts_unchecked can be inspected without panic", "106-byte inputs, all bytes symbolic", timeout=900, stub_env=True, stubs=["decompress", "Packet::parse"]),
        H(_P, "c32_parts_unchecked_k0_s0", "from_parts_unchecked with a 0-byte key and 0-byte signature part: whatever is returned Ok is a full header and can be inspected without panic", "12-byte payload; signature/timestamp/payload symbolic, key part zeros", timeout=900, stub_env=True, stubs=["decompress", "Packet::parse"]),
        H(_P, "c32_parts_unchecked_k32_s0", "from_parts_unchecked with a 32-byte key and 0-byte signature part: whatever is returned Ok is a full header and can be inspected without panic", "12-byte payload; signature/timestamp/payload symbolic, key part zeros", timeout=900, stub_env=True, stubs=["decompress", "Packet::parse"]),
        H(_P, "c32_parts_unchecked_k32_s63", "from_parts_unchecked with a 32-byte key and 63-byte signature part: whatever is returned Ok is a full header and can be inspected without panic", "12-byte payload; signature/timestamp/payload symbolic, key part zeros", timeout=900, stub_env=True, stubs=["decompress", "Packet::parse"]),
        H(_P, "c32_parts_unchecked_k31_s64", "from_parts_unchecked with a 31-byte key and 64-byte signature part: whatever is returned Ok is a full header and can be inspected without panic", "12-byte payload; signature/timestamp/payload symbolic, key part zeros", timeout=900, stub_env=True, stubs=["decompress", "Packet::parse"]),
        H(_P, "c32_parts_unchecked_k32_s52", "from_parts_unchecked with a 32-byte key and 52-byte signature part: whatever is returned Ok is a full header and can be inspected without panic", "12-byte payload; signature/timestamp/payload symbolic, key part zeros", timeout=900, stub_env=True, stubs=["decompress", "Packet::parse"]),
        H(_P, "c32_parts_unchecked_exact_and_long_parts", "same for exact and over-long parts", "(32,64),(33,64),(32,65),(31,65),(33,63)", timeout=900),
        W(_P, "c32_witness", timeout=900),
    ],
}
PROPS["C33"] = {
    "functions": ["iroh_dns::pkarr::Timestamp::now"],
    "bounds": "one call under <= 3 environment interferences (other threads raising the cell, spurious CAS failures); two sequential calls; clock readings < 2^62 us, cell < 2^64-16",
    "out": "real hardware atomics / memory orderings (the cell is modelled sequentially consistent; Relaxed CAS on a single location is coherent), u64 wrap at 2^64",
    "stubs": ["std::time::SystemTime::now -> arbitrary reading (may go backwards)", "portable_atomic::AtomicU64::compare_exchange_weak -> environment step (cell raised to an arbitrary larger value / spurious failure) then the real comparison"],
    "assumptions": ["rely: other threads modify LAST_TIMESTAMP only by running Timestamp::now, i.e. only raise it to values they return"],
    "harnesses": [
        H(_P, "c33_now_exceeds_cell_under_interference", "returned value > cell value immediately before the successful CAS; cell == returned value afterwards (guarantee => strict global monotonicity by induction)", "<= 3 interferences per call", timeout=900, stub_env=True, stubs=["SystemTime::now", "compare_exchange_weak"]),
        H(_P, "c33_sequential_calls_strictly_increase", "two sequential calls strictly increase for arbitrary clocks", "all clock readings < 2^62", timeout=900, stub_env=True, stubs=["SystemTime::now"]),
        W(_P, "c33_witness", timeout=900),
    ],
}
PROPS["C37"] = {
    "functions": ["iroh_dns::pkarr::SignedPacket::{more_recent_than,timestamp,encoded_packet}"],
    "bounds": "three packets with all 104 header bytes and 3 payload bytes symbolic; payload lengths 2 vs 3 for the prefix rule",
    "out": "the store actor, redb tables, the update report of ZoneStore::insert (tokio + redb: not encodable); payloads > 3 bytes",
    "stubs": [],
    "assumptions": ["kernel only: the store keeps a packet unless existing.more_recent_than(new) (store/signed_packets.rs, by reading); a strict total order makes that converge to the maximum for every arrival order"],
    "harnesses": [
        H(_P, "c37_more_recent_than_strict_total_order", "irreflexive, asymmetric, transitive, total on distinct (timestamp,payload); agrees with lexicographic order", "3 packets, 3-byte payloads", timeout=900),
        H(_P, "c37_more_recent_than_prefix_payloads", "payloads of different length at equal timestamps are strictly ordered (prefix is older)", "payload lengths 2 and 3", timeout=900),
        W(_P, "c37_witness", timeout=900),
    ],
}

TRACING = "tracing::__macro_support::__is_enabled -> false, DefaultCallsite::interest -> never, Event::dispatch -> no-op (tracing's thread-local dispatcher makes kani-compiler ICE)"
CLOCK = "tokio::time::Instant::now -> BASE + NOW_MS (symbolic, harness-controlled, non-decreasing)"
RNG = "rand::random::<T> -> arbitrary T"
_S = "iroh_relay__streams"
_CL = "iroh_relay__client"
PROPS["C05"] = {
    "functions": ["iroh_relay::protos::relay::Datagrams::is_forwardable", "iroh_relay::server::client::Client::try_send_packet (real tokio mpsc try_send)",
                  "iroh_relay::server::streams::RelayedStream::<MockSink>::start_send", "RelayToClientMsg::{encoded_len,to_bytes}"],
    "bounds": "every payload length 0..=65544 (symbolic) for single datagrams and batches",
    "out": "the client actor loop (tokio select!, mpsc receive: thread-local with destructor, not compilable by Kani 0.68): that a sink error ends only the "
           "receiving actor is by reading server/client.rs run_inner; queue-full / closed-queue paths; Ping/Pong frames (answered on the sender's own connection)",
    "stubs": [KEY_ALLVALID, BT, TRACING, "RelayToClientMsg::to_bytes -> empty buffer in the symbolic-length harnesses (allocation by symbolic length; the encoder is C10's subject)"],
    "assumptions": ["a packet can only reach another client's connection through Clients::send_packet -> Client::try_send_packet (by reading: the only producer of the packet queue)"],
    "harnesses": [
        H(_S, "c05_forwardable_iff_sink_accepts_single", "is_forwardable(d) <=> the receiver's sink-side checks accept the re-framed message (non-empty, <= MAX_PACKET_SIZE)", "payload length 0..=65544 symbolic, single datagram"),
        H(_S, "c05_forwardable_iff_sink_accepts_batch", "same for batches (2 more header bytes)", "payload length 0..=65544 symbolic, batch"),
        H(_CL, "c05_only_forwardable_enters_queue", "Client::try_send_packet queues a datagram batch for the destination's actor iff the destination's sink accepts its frame; everything else is dropped with Ok and the queue is untouched", "payload length 0..=65544 symbolic, single and batch; partially initialised Client (packet queue only)", timeout=900),
        W(_S, "c05_witness"),
    ],
}
PROPS["C09"] = {
    "functions": ["iroh_relay::server::streams::Bucket::{new,from_config,update_state,consume}"],
    "bounds": "relay path (refill period 100 ms): from_config over all NonZeroU32 rates and optional bursts; one consume step from an arbitrary reachable state with "
              "refill,max,n,elapsed <= 2^8 (quick) / 2^12 (thorough) and fill >= -4*2^k; panic-freedom over full u32-derived ranges, any usize byte count, clock up to 2^41 ms",
    "out": "RateLimited::poll_read (creates a tokio Sleep: thread-local, not compilable): that it sleeps until the returned deadline and consults the bucket after every read is by "
           "reading streams.rs:565-620; the watch channel; Bucket::new with embedder-chosen refill periods or i64-range rates",
    "stubs": [CLOCK, BT],
    "assumptions": ["one inductive step from every state satisfying fill <= max, refill >= 1 covers histories of any length"],
    "harnesses": [
        H(_S, "c09_from_config_total_and_full_16bit", "from_config: never panics, full bucket, burst default rate/10, refill = rate/10, rejects only rate<10 or zero burst", "rates <= 2^16, all optional bursts", timeout=900, stub_env=True, stubs=["Instant::now"]),
        H(_S, "c09_from_config_total_and_full_32bit", "same", "all NonZeroU32 rates", tier="thorough", timeout=3000, stub_env=True, stubs=["Instant::now"]),
        H(_S, "c09_consume_step_8bit", "one consume step from any reachable state: no refill before a full period, refill = whole elapsed periods x refill capped at max, admit iff tokens remain, deadline >= one period after the refill clock, refill clock within one period of now", "8-bit ranges", timeout=900, stub_env=True, stubs=["Instant::now"]),
        H(_S, "c09_consume_step_12bit", "same", "12-bit ranges", tier="thorough", timeout=3000, stub_env=True, stubs=["Instant::now"]),
        H(_S, "c09_throttle_deadline_exact_6bit", "throttle deadline = first period boundary with positive fill (resume no later, not earlier)", "6-bit ranges", timeout=900, stub_env=True, stubs=["Instant::now"]),
        H(_S, "c09_consume_never_panics", "no byte count / elapsed time / reachable state makes consume panic or leave fill > max", "rate up to u32::MAX, n any usize, clock < 2^41 ms", timeout=900, stub_env=True, stubs=["Instant::now"]),
        H(_S, "c09_public_new_then_consume_never_panics", "Bucket::new with any i64 burst/rate and any whole-millisecond period, then one consume after any time advance: no panic, fill <= max, Ok iff tokens remain", "max, rate: any i64; period: any u32 ms; clock < 2^41 ms; n any usize", timeout=1800, stub_env=True, stubs=["Instant::now"]),
        W(_S, "c09_witness"),
    ],
}
PROPS["C11"] = {
    "functions": ["iroh_relay::http::ProtocolVersion::{match_from_str,to_str,to_header_value,ALL}", "derived Ord/Default"],
    "bounds": "all ASCII strings of length 0..=16",
    "out": "MOST of the property: the split(',').map(trim).filter_map(match_from_str).max() pipeline is written inline in handle_relay_ws_upgrade(Request<Incoming>) "
           "(no constructor for hyper::body::Incoming, spawns tasks) and the client side sits inside ClientBuilder::connect; a mutation of that pipeline is NOT detected",
    "stubs": [],
    "assumptions": [],
    "harnesses": [
        H(_R.replace("relay__relay", "relay__http"), "c11_version_token_exact_match", "match_from_str(s) == Some(v) iff s == v.to_str() exactly", "ASCII strings <= 16 bytes"),
        H("iroh_relay__http", "c11_version_order_and_names", "names distinct, ALL complete, V2 newest under Ord, header value == name", "-"),
        W("iroh_relay__http", "c11_witness"),
    ],
}
_PT = "iroh_relay__ping_tracker"
PROPS["C14"] = {
    "functions": ["iroh_relay::ping_tracker::PingTracker::{new,default,new_ping,new_ping_with_timeout,pong_received,ping_timeout,timeout}"],
    "bounds": "every history of 3 operations (new ping / pong with arbitrary 8 bytes / clock advance 0..25.5 s in 100 ms ticks), arbitrary rng output; clamp formula for max 1..=120 s and rtt <= 200 s",
    "out": "timeout() itself (contains tokio sleep_until: any harness that statically reaches it makes kani-compiler ICE): that it sleeps until exactly `deadline` and pends forever when idle is by reading; PingTracker::new(max < 500 ms) (clamp panics; no caller does that)",
    "stubs": [RNG, CLOCK, TRACING],
    "assumptions": [],
    "harnesses": [
        H(_PT, "c14_latest_ping_only", "tracker armed iff latest ping unanswered; deadline = its send time + timeout in force; rtt only from a matching pong (= now - send time); stale/forged pongs change nothing", "every history of 3 operations, clock in 100 ms ticks", timeout=900, stub_env=True, stubs=["rand::random", "Instant::now"]),
        H(_PT, "c14_latest_ping_only_4_steps", "same as c14_latest_ping_only", "every history of 4 operations", tier="thorough", timeout=3000, stub_env=True, stubs=["rand::random", "Instant::now"]),
        H(_PT, "c14_timeout_is_clamped_triple_rtt", "ping_timeout() == clamp(3*rtt, 500 ms, max), max when unmeasured", "max 1..=120 s, rtt 0..=200 s in ms", timeout=900),
        H(_PT, "c14_timeout_total_for_any_max", "ping_timeout() never panics and stays within [min(500 ms, max), max] for every configured maximum, also below the 500 ms floor", "max: any u32 ms, rtt 0..=200 s", timeout=900),
        H(_PT, "c14_stale_pong_ignored", "a pong for an older ping or with forged data changes nothing", "2 pings, 3 pongs", stub_env=True, stubs=["rand::random", "Instant::now"]),
        W(_PT, "c14_witness"),
    ],
}

_M = "iroh__mapped_addrs"
PROPS["C18"] = {
    "functions": ["iroh::socket::mapped_addrs::MultipathMappedAddr::from(SocketAddr)", "EndpointIdMappedAddr/RelayMappedAddr/CustomMappedAddr::try_from(Ipv6Addr)",
                  "CustomMappedAddr::try_from(IpAddr)", "MappedAddr::private_socket_addr (3 impls)"],
    "bounds": "ALL socket addresses: 128-bit IPv6 address, port, flow info, scope id, and all IPv4 addresses/ports - fully symbolic",
    "out": "AddrMap::{get,lookup} (FxHashMap with symbolic or symbolic-index keys did not finish within 12 min; the real generate() calls rand::rng(), a thread-local with destructor => kani-compiler ICE): "
           "stability/uniqueness of the key<->address bijection under concurrent lookups is NOT decided; RemoteMap::to_transport_addr",
    "stubs": [BT],
    "assumptions": [],
    "harnesses": [
        H(_M, "c18_classification_all_addresses", "an address is classified Mixed/Relay/Custom iff its first 8 bytes are fd15:070a:510b:000{0,1,3}; anything else is Ip and passed through unchanged; synthetic kinds keep their bits", "all socket addresses"),
        H(_M, "c18_kinds_disjoint_and_roundtrip", "the three synthetic ranges are pairwise disjoint; private_socket_addr() of a synthetic address classifies back to the same kind and value", "all IPv6 addresses"),
        W(_M, "c18_witness"),
    ],
}
_I = "iroh__ip"
PROPS["C19"] = {
    "functions": ["iroh::socket::transports::ip::Config::{is_valid_send_addr,is_valid_default_addr,is_ipv4,is_ipv6,prefix_len,is_default}", "ipnet::{Ipv4Net,Ipv6Net}::{new,contains,addr,prefix_len} (real)"],
    "bounds": "every bound-socket configuration (any address, prefix 0..=32/128, scope id, flags), every destination (v4/v6, scope), optional source of either family - fully symbolic",
    "out": "the selection `find` over the prefix-sorted sender list and the never-fatal wrapper (IpSender / Socket hold real sockets and the endpoint), the sort by prefix length in bind, "
           "dispatch of synthetic relay/custom addresses (needs RemoteMap and live transports); classification of synthetic addresses is decided under C18",
    "stubs": [],
    "assumptions": [],
    "harnesses": [
        H(_I, "c19_valid_send_addr_matches_rule", "is_valid_send_addr == (source given: same family and bound address unspecified or equal; none: subnet contains destination, or link-local v6 destination on the socket's scope)", "all configs/destinations/sources", timeout=900),
        H(_I, "c19_valid_default_addr_matches_rule", "is_valid_default_addr == default-flagged socket of the family of the source (else of the destination)", "all configs/destinations/sources"),
        W(_I, "c19_witness"),
    ],
}

_H = "iroh_relay__handshake"
PROPS["C07"] = {
    "functions": ["iroh_relay::server::OnDisconnectGuard::{for_access_control,empty,drop,endpoint_id,connection_id}", "ClientRequest::new", "ConnectionId::next"],
    "bounds": "any endpoint key; one admitted connection, one policy-less guard; 3 consecutive connection ids",
    "out": "MOST of the property: SuccessfulAuthentication::authorize_with/accept/deny go through handshake::write_frame, whose BytesMut growth + postcard io::Write plumbing did not finish under CBMC "
           "(10 min, also with BytesMut::new and postcard::to_io stubbed; async fns cannot be stubbed) - that a denial creates no guard and an admission creates exactly one is by reading; the guard's life inside the "
           "connection actor (tokio task); ids wrap after 2^64",
    "stubs": [KEY_ALLVALID],
    "assumptions": ["mock DynAccessControl counting calls"],
    "harnesses": [
        H(_H, "c07_guard_notifies_exactly_once_on_drop", "a guard notifies the policy exactly once (same endpoint + connection id) when dropped, not before, also after moves; an empty guard notifies nobody", "any endpoint key"),
        H(_H, "c07_guard_notifies_when_sole_owner_of_policy", "the disconnect is reported exactly once even when the guard is the only remaining holder of the access policy", "any endpoint key", timeout=900),
        H(_H, "c07_connection_ids_fresh", "connection ids are distinct and increasing", "3 consecutive ids"),
    ],
}
PROPS["C03"] = {
    "functions": ["iroh_relay::protos::handshake::KeyMaterialClientAuth::verify", "ClientAuth::verify", "ServerChallenge::message_to_sign", "deserialize_frame::<ClientAuth> (postcard)"],
    "bounds": "all keys, signatures, suffixes, challenges and keying material (fully symbolic); ClientAuth frame bodies: all 97-byte strings",
    "out": "serverside() as a whole (it calls rand::rng(): thread-local with destructor => kani-compiler ICE): the fall-through from a failed key-material check to the challenge path and the denial frame on failure are by reading; "
           "that the TLS exporter is bound to the session (rustls); Ed25519/BLAKE3 themselves; the client side (needs a SecretKey: SHA-512 + scalar multiplication)",
    "stubs": [KEY_ALLVALID, KEY_ORACLE, SIG_ORACLE, "blake3::derive_key -> uninterpreted function (records input, fresh output)", BT],
    "assumptions": ["the two verification kernels are what serverside() calls to decide admission (by reading handshake.rs)"],
    "harnesses": [
        H(_H, "c03_key_material_auth_binds_key_and_session", "key-material auth Ok iff exporter(context = claimed key) suffix matches and the oracle accepts (claimed key, first 16 bytes of that material, client signature)", "all symbolic", timeout=900, stub_env=True, stubs=["verify"]),
        H(_H, "c03_challenge_auth_binds_key_and_challenge", "challenge auth Ok iff the oracle accepts (claimed key, derive_key(domain, this challenge), client signature)", "all symbolic", timeout=900, stub_env=True, stubs=["verify", "derive_key"]),
        H(_H, "c03_client_auth_frame_decoding", "the ClientAuth frame decodes to exactly the key and signature bytes sent; only valid points accepted", "all 97-byte bodies", timeout=900),
        H(_H, "c03_key_material_header_decoding", "the key-material header body decodes to exactly the key, signature and suffix sent; only valid points accepted", "all 113-byte bodies", timeout=1800, tier="thorough"),
        W(_H, "c03_witness"),
    ],
}

_SV = "iroh_relay__server"
PROPS["C13"] = {
    "functions": ["iroh_relay::server::is_challenge_char"],
    "bounds": "every char (all 0x110000 scalar values, symbolic)",
    "out": "MOST of the property: serve_no_content_handler itself (length test 1..=63, the echo `response <challenge>`, status 204) runs on http::HeaderMap/HeaderValue/response::Builder, whose hashing and "
           "insertion did not finish under CBMC within 200 s even for a 0-byte challenge; a mutation of the length bounds or of the echoed text is NOT detected",
    "stubs": [],
    "assumptions": [],
    "harnesses": [
        H(_SV, "c13_challenge_alphabet", "is_challenge_char(c) iff c in [A-Za-z0-9._-]", "every char"),
        H(_SV, "c13_alphabet_witness", "-", "-", expect="witness"),
    ],
}

_HK = "iroh__hooks"
PROPS["C42"] = {
    "functions": ["iroh::endpoint::hooks::EndpointHooksList::{push,before_connect,after_handshake}", "DynEndpointHooks blanket impl (boxing of the hook futures)"],
    "bounds": "lists of 0, 2 and 3 hooks with every accept/reject pattern and arbitrary error codes; real async fns polled with a no-op waker over always-ready mock hooks; run with `-Z restrict-vtable` "
              "(without it CBMC resolves the boxed future's `poll` by C-level signature, and `Poll<BeforeConnectOutcome>` - one byte - matches the poll function of every future of the crate: before_connect did not finish in 20 min even with 0 hooks; with the restriction 30-60 s)",
    "out": "MOST of the property: the call sites (connect_with_opts stops before the handshake on a rejection, conn_from_noq_conn closes with the hook's code), the self-connect and empty-ALPN checks - they need a bound Endpoint / a live noq connection (tokio, sockets); by reading",
    "stubs": [],
    "kani_args": ["-Z", "restrict-vtable"],
    "assumptions": ["before_connect / after_handshake are given references to leaked uninitialised EndpointAddr / Connection values that neither the list nor the mock hooks read",
                    "Kani's vtable restriction (-Z restrict-vtable) is sound: a dyn call only reaches implementations of that trait method"],
    "harnesses": [
        H(_HK, "c42_before_connect_0_hooks", "no hooks => Accept", "0 hooks"),
        H(_HK, "c42_before_connect_2_hooks", "before_connect accepts iff every hook accepts; hooks are consulted in installation order and none after the first rejection", "2 hooks, all patterns"),
        H(_HK, "c42_before_connect_3_hooks", "same", "3 hooks", timeout=900),
        W(_HK, "c42_witness"),
        H(_HK, "c42_after_handshake_0_hooks", "no hooks => Accept", "0 hooks"),
        H(_HK, "c42_after_handshake_2_hooks", "result is the first rejecting hook's error code and reason, else Accept; order as above", "2 hooks, all patterns, any codes"),
        H(_HK, "c42_after_handshake_3_hooks", "same", "3 hooks", timeout=900),
        W(_HK, "c42_after_witness"),
    ],
}

_V = "iroh__verifier"
PROPS["C01"] = {
    "functions": ["iroh::tls::verifier::ServerCertificateVerifier::{verify_server_cert,requires_raw_public_keys}", "rustls::sign::public_key_to_spki (real)", "iroh::tls::verifier::Ed25519Dalek::verify_signature",
                  "ClientCertificateVerifier::{verify_client_cert,offer_client_auth,requires_raw_public_keys}"],
    "bounds": "server certificate: every 44-byte end-entity string against every dialed id (and against the zero id for native replay), 0 or 1 intermediate; raw key lengths 31..=33, signature lengths 63..=65, 4-byte message, all bytes symbolic; client certificate: every 44-byte string, 0 or 1 intermediate",
    "out": "tls::name::{encode,decode} - decode uses str::split(\".\") (Two-Way string searcher) and encode uses format!, neither finishes under CBMC even for one concrete name (120 s) - so the TLS-name round trip is NOT decided "
           "(decode is replaced by a stub that returns the dialed id); end-entity lengths other than 44; the TLS handshake itself (rustls/noq), remote_id_from_noq_conn, connect_with_opts; Ed25519 (oracle)",
    "stubs": [KEY_ORACLE, KEY_ALLVALID, SIG_ORACLE, BT, "<ed25519_dalek::VerifyingKey as Verifier>::verify (non-strict) -> counting oracle with arbitrary verdict; the harness asserts it is never consulted", "iroh::tls::name::decode -> returns the dialed id chosen by the harness (the real decoder does not finish under CBMC)"],
    "assumptions": ["rustls verifies the handshake transcript signature through SignatureVerificationAlgorithm::verify_signature with the key of the presented raw-public-key certificate (rustls contract)",
                    "tls::name::decode(tls::name::encode(id)) == Some(id) (not decided here; covered by the repo's own unit tests)"],
    "harnesses": [
        H(_V, "c01_server_cert_is_spki_of_dialed_id_zero_key", "verify_server_cert Ok iff the presented raw key is byte for byte the Ed25519 SPKI of the dialed id and there are no intermediates (zero id, real TLS name of the zero id: replays natively)", "every 44-byte end entity, 0/1 intermediate, dialed id = zero key", timeout=900),
        H(_V, "c01_server_cert_is_spki_of_dialed_id_any_key", "same for every dialed id", "every 44-byte end entity, 0/1 intermediate, every 32-byte dialed id", timeout=900, stub_env=True, stubs=["name::decode"]),
        H(_V, "c01_handshake_signature_is_checked_with_the_presented_key", "verify_signature Ok iff 32-byte valid key, 64-byte signature and the oracle accepts exactly (key, message, signature)", "key 31..=33 B, signature 63..=65 B, all symbolic", timeout=900, stub_env=True, stubs=["decompress", "verify"]),
        H(_V, "c01_client_cert_no_intermediates", "client certificates accepted iff no intermediates; raw public keys required", "every 44-byte certificate", timeout=900),
        W(_V, "c01_witness", timeout=900),
    ],
}

_AT = "iroh_dns__attrs"
PROPS["C31"] = {
    "functions": ["iroh_dns::attrs::TxtAttrs::<IrohAttr>::{from_strings,attrs}", "IrohAttr::from_str (strum)", "str::split_once, BTreeMap<IrohAttr, Vec<String>>::entry (real)"],
    "bounds": "one TXT string `user-data=<v>` with every 4-byte printable-ASCII value v (including '=' anywhere); fixed malformed / other-key strings",
    "out": "MOST of the property: to_txt_strings / endpoint_info_to_attrs / endpoint_info_from_attrs / UserData and address Display+FromStr (format!, Display: out of CBMC's reach), relay URLs (Url), the signed-packet and DNS containers (simple-dns), "
           "several records at once, values longer than 4 bytes",
    "stubs": [KEY_ALLVALID, BT],
    "assumptions": [],
    "harnesses": [
        H(_AT, "c31_txt_value_is_everything_after_first_equals", "from_strings keeps exactly the value after the first '=' (values containing '=' are not truncated)", "all 4-byte printable ASCII values", timeout=1800),
        H(_AT, "c31_txt_malformed_and_other_keys", "no '=' or unknown key => error; addr= values with '=' kept", "fixed strings", timeout=900),
        W(_AT, "c31_witness", timeout=900),
    ],
}
