#!/bin/bash
# run_all.sh <tier> : runs every claimed check of MANIFEST.json in turn, prints one line each
tier=${1:-quick}
cd "$(dirname "$0")/.."
./setup.sh >/dev/null 2>&1
for p in $(python3 -c "import json;print(' '.join(c['property_id'] for c in json.load(open('MANIFEST.json'))['checks']))"); do
  s=$(date +%s); out=$(./check $p --tier $tier 2>&1); rc=$?; e=$(date +%s)
  echo "$p rc=$rc wall=$((e-s))s $(echo "$out" | tail -1 | cut -c1-160)"
  [ $rc -ne 0 ] && echo "$out" | grep -v " pass " | tail -8 | cut -c1-300
done
