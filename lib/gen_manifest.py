#!/usr/bin/env python3
"""Regenerates /verif/MANIFEST.json from lib/registry.py + lib/manifest_meta.py."""
import json, os, sys, subprocess
sys.path.insert(0, os.path.dirname(os.path.abspath(__file__)))
import registry, manifest_meta as mm

props = [json.loads(l) for l in open(os.path.join(os.path.dirname(__file__), "..", "properties.jsonl"))]
ids = [p["id"] for p in props]
checks = []
for pid in ids:
    if pid not in registry.PROPS or pid not in mm.CLAIMED:
        continue
    m = mm.CLAIMED[pid]
    checks.append({
        "property_id": pid,
        "quick_cmd": "./check %s --tier quick" % pid,
        "thorough_cmd": "./check %s --tier thorough" % pid,
        "evidence_file": "/verif/evidence/%s.json" % pid,
        "replay_cmd_template": "./check %s --replay {path}" % pid,
        "engine": "kani",
        "level_claimed": {"category": "model_checking", "text": m["text"], "design_ref": "DESIGN.md section 4, " + pid},
        "level_note": m["note"],
        "technique": m.get("technique", "SAT-based bounded model checking (Kani/CBMC/CaDiCaL) of the real functions with symbolic inputs; counterexamples replayed natively"),
    })
claimed = {c["property_id"] for c in checks}
na = [{"property_id": pid, "reason": mm.NOT_APPLICABLE[pid]} for pid in ids if pid not in claimed]
missing = [pid for pid in ids if pid not in claimed and pid not in mm.NOT_APPLICABLE]
assert not missing, missing
try:
    commits = subprocess.check_output(["git", "-C", "/repo", "log", "--format=%H %s", "--grep=^verif hook"], text=True).split("\n")
    commits = [c.split()[0] for c in commits if c.strip()]
except Exception:
    commits = []
man = {
    "version": 1,
    "setup_cmd": "./setup.sh",
    "hooks": {
        "guard": "cfg(kani)",
        "enable": "cargo kani sets --cfg kani itself; hooks are `#[cfg(kani)] #[path = \"/verif/kani/<crate>/<mod>.rs\"] mod verif_kani;` "
                  "includes (and cfg(kani)-only helper items) inside the anchored modules; ordinary cargo build/test never sees them",
        "baseline_off_cmd": "cd /repo && cargo nextest run --workspace --no-fail-fast --test-threads 8 --offline || cargo test --workspace --no-fail-fast --offline",
        "source_commits": commits,
        "add_only": True,
    },
    "engines": [
        {"name": "kani", "path": "/verif/check", "serves_properties": [c["property_id"] for c in checks],
         "kind_free_text": "Kani 0.68.0 proof harnesses compiled with the real crates (in-crate, cfg(kani)), CBMC 6.11.0 + CaDiCaL decide each "
                           "assertion for all inputs within the stated bounds; unwinding assertions on; counterexamples extracted with "
                           "--concrete-playback and replayed natively with cargo kani playback"},
    ],
    "checks": checks,
    "not_applicable": na,
    "notes": mm.NOTES,
}
json.dump(man, open(os.path.join(os.path.dirname(__file__), "..", "MANIFEST.json"), "w"), indent=1)
print("claimed", len(checks), "not applicable", len(na))
