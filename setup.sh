#!/bin/bash
# Run once after a fresh restore (offline): creates the scratch dirs and pre-builds the Kani
# dependency graph of each crate so that the first check does not pay the cold build.
set -u
cd "$(dirname "$0")"
export CARGO_NET_OFFLINE=true
mkdir -p .build/playback .build/logs evidence replays
python3 - <<'PY'
import sys, os
sys.path.insert(0, "lib")
import registry
for m in registry.all_modules():
    p = os.path.join(".build/playback", m + ".rs")
    if not os.path.exists(p):
        open(p, "w").write("// no counterexample to replay\n")
crates = {}
for pid, pr in registry.PROPS.items():
    for h in pr["harnesses"]:
        crates.setdefault(h["crate"], h["name"])
for c, h in crates.items():
    print(c, h)
PY
python3 - <<'PY' > .build/setup_list.txt
import sys
sys.path.insert(0, "lib")
import registry
crates = {}
for pid, pr in registry.PROPS.items():
    for h in pr["harnesses"]:
        crates.setdefault(h["crate"], h["name"])
for c, h in crates.items():
    f = registry.CRATES[c].get("features") or ""
    print(c, h, f)
PY
rc=0
while read -r crate harness feat; do
  args=(-p "$crate")
  [ -n "$feat" ] && args+=(--features "$feat")
  echo "== pre-building kani artifacts for $crate"
  (cd /repo && cargo kani "${args[@]}" -Z stubbing -Z unstable-options --only-codegen --exact --harness "$harness" \
      --target-dir "/verif/.build/$crate" > "/verif/.build/logs/setup.$crate.log" 2>&1) || { echo "setup: build of $crate failed (see .build/logs/setup.$crate.log)"; tail -20 "/verif/.build/logs/setup.$crate.log"; rc=1; }
done < .build/setup_list.txt
exit $rc
